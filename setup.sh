#!/bin/sh
# offline build of the symbolic executor
set -e
cd "$(dirname "$0")/engine"
export GOFLAGS=-mod=vendor GOPROXY=off GOSUMDB=off GOTOOLCHAIN=local
mkdir -p ../bin
go build -o ../bin/symgo .
cd .. && ./check selftest || echo "WARNING: differential self-test failed"
