#!/bin/bash
# tools/seedtry.sh <seed-dir|-> <files,comma> <harnesses,comma> [symgo flags...]
# runs one engine invocation against a scratch clone of /repo with the seed applied ("-" = unchanged /repo); prints the summary
set -u
S=$1; FILES=$2; H=$3; shift 3
T=$(mktemp -d /tmp/verif-try-XXXX); R=/repo
if [ "$S" != "-" ]; then git clone -q /repo $T/repo && git -C $T/repo apply $(realpath $S)/patch.diff || exit 1; R=$T/repo; fi
COMMON=rt.go,refcodec.go,vconn.go,util.go,vbroker.go
export GOFLAGS=-mod=mod GOPROXY=off GOSUMDB=off GOTOOLCHAIN=local
/usr/bin/time -f "wall=%es" ${SYMGO:-/verif/bin/symgo} -repo $R -harness-dir /verif/harness -files $COMMON,$FILES -harness $H -out $T/out.json "$@" 2>&1 | tail -5
python3 - $T/out.json <<'PY'
import json,sys
d=json.load(open(sys.argv[1]))
rs=d['harnesses']
for r in rs:
    print(r.get('harness'),r.get('verdict'),'unknowns',r.get('solver_unknowns'),'paths',r.get('paths'),'wall',r.get('wall_s'),'bounds',r.get('bound_hits'),'reach',r.get('reach'))
    seen=set()
    for v in r.get('violations') or []:
        k=(v.get('assert'),v.get('msg'))
        if k in seen: continue
        seen.add(k); print('  VIOL',k,v.get('site'),'|',' '.join(v.get('events') or [])[:500])
    for w in (r.get('inconclusive_reasons') or [])[:5]: print('  INC',str(w)[:300])
PY
rm -rf $T
