#!/usr/bin/env python3
"""tools/seedrun.py <seed-dir> [tier] [check ids...]
Applies seed-dir/patch.diff to /repo, runs the owning check(s), reverts /repo.  Prints a one-line verdict."""
import json, os, subprocess, sys
d = os.path.abspath(sys.argv[1])
tier = sys.argv[2] if len(sys.argv) > 2 else "quick"
meta = json.load(open(os.path.join(d, "meta.json"))) if os.path.exists(os.path.join(d, "meta.json")) else {}
ids = sys.argv[3:] or [meta.get("property")]
patch = os.path.join(d, "patch.diff")
assert subprocess.run(["git", "-C", "/repo", "status", "--porcelain", "--untracked-files=no"], capture_output=True, text=True).stdout.strip() == "", "/repo not clean"
subprocess.run(["git", "-C", "/repo", "apply", patch], check=True)
try:
    for pid in ids:
        p = subprocess.run(["/verif/check", pid, tier], capture_output=True, text=True, cwd="/verif")
        lines = [l for l in p.stdout.splitlines() if l.startswith("VIOLATION") or l.startswith("INCONCLUSIVE") or l.startswith("  violated")]
        asserts = sorted(set(l.split()[2] for l in p.stdout.splitlines() if l.startswith("  violated")))
        print("%s %s %s exit=%d violations=%d asserts=%s" % (os.path.basename(os.path.dirname(d)) + "/" + os.path.basename(d), pid, tier, p.returncode, sum(1 for l in lines if l.startswith("VIOLATION")), asserts[:6]))
        if p.returncode == 2:
            print("\n".join(l[:300] for l in p.stdout.splitlines() if l.startswith("INCONCLUSIVE"))[:1500])
finally:
    subprocess.run(["git", "-C", "/repo", "checkout", "--", "."], check=True)
    # evidence files were rewritten by the run on the mutated tree: restore the committed ones
    subprocess.run(["git", "-C", "/verif", "checkout", "--", "evidence"], check=False)
