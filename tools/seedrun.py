#!/usr/bin/env python3
"""tools/seedrun.py <seed-dir> [tier] [check ids...]
Applies seed-dir/patch.diff to a scratch copy of /repo (under a mktemp dir outside /repo and /verif, removed
afterwards), runs the owning check(s) against it (VERIF_REPO), prints a one-line verdict.  Equivalent to
`git -C /repo apply` + check + `git -C /repo checkout -- .`, but never touches /repo."""
import json, os, shutil, subprocess, sys, tempfile
d = os.path.abspath(sys.argv[1])
tier = sys.argv[2] if len(sys.argv) > 2 else "quick"
meta = json.load(open(os.path.join(d, "meta.json"))) if os.path.exists(os.path.join(d, "meta.json")) else {}
ids = sys.argv[3:] or [meta.get("property")]
tmp = tempfile.mkdtemp(prefix="verif-seed-")
repo = os.path.join(tmp, "repo")
try:
    subprocess.run(["git", "clone", "-q", "/repo", repo], check=True)
    if meta.get("base"):
        # a seed written against an earlier /repo commit (before a later `fix:` touched the same lines)
        subprocess.run(["git", "-C", repo, "checkout", "-q", meta["base"]], check=True)
    subprocess.run(["git", "-C", repo, "apply", os.path.join(d, "patch.diff")], check=True)
    for pid in ids:
        outdir = os.path.join(tmp, "ev")
        env = dict(os.environ, VERIF_REPO=repo, VERIF_EVIDENCE_DIR=outdir, VERIF_REPLAY_DIR=os.path.join(tmp, "replays"), VERIF_STOP_AT_FIRST="1")
        p = subprocess.run(["/verif/check", pid, tier], capture_output=True, text=True, cwd="/verif", env=env)
        asserts = sorted(set(l.split()[2] for l in p.stdout.splitlines() if l.startswith("  violated")))
        nviol = sum(1 for l in p.stdout.splitlines() if l.startswith("VIOLATION"))
        print("%s %s %s exit=%d violations=%d asserts=%s" % (os.path.basename(d), pid, tier, p.returncode, nviol, asserts[:6]))
        if p.returncode == 2:
            print("\n".join(l[:300] for l in p.stdout.splitlines() if l.startswith("INCONCLUSIVE"))[:1500])
finally:
    shutil.rmtree(tmp, ignore_errors=True)
