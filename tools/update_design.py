#!/usr/bin/env python3
"""Regenerates the generated tables of DESIGN.md (bounds from checks_table.py, seed matrix from seeded/MATRIX.md)."""
import re, subprocess
p = "/verif/DESIGN.md"
s = open(p).read()
bounds = subprocess.run(["/verif/tools/designtable.py"], capture_output=True, text=True).stdout
s = re.sub(r"<!-- BEGIN:BOUNDS -->.*?<!-- END:BOUNDS -->", "<!-- BEGIN:BOUNDS -->\n" + bounds + "<!-- END:BOUNDS -->", s, flags=re.S)
try:
    m = open("/verif/seeded/MATRIX.md").read()
except FileNotFoundError:
    m = "(run tools/seedmatrix.py)\n"
s = re.sub(r"<!-- BEGIN:MATRIX -->.*?<!-- END:MATRIX -->", "<!-- BEGIN:MATRIX -->\n" + m + "<!-- END:MATRIX -->", s, flags=re.S)
open(p, "w").write(s)
