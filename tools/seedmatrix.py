#!/usr/bin/env python3
"""Runs the owning check (quick; thorough if quick misses) against every seeded change and records the result
in seeded/<id>/meta.json and seeded/MATRIX.md."""
import json, os, re, subprocess, sys
V = "/verif"
rows = []
only = sys.argv[1:]
for d in sorted(os.listdir(os.path.join(V, "seeded"))):
    p = os.path.join(V, "seeded", d)
    if not os.path.isdir(p) or (only and d not in only):
        continue
    meta = json.load(open(os.path.join(p, "meta.json")))
    res = {}
    for tier in ("quick", "thorough"):
        out = subprocess.run([os.path.join(V, "tools", "seedrun.py"), p, tier], capture_output=True, text=True).stdout.strip().splitlines()
        line = out[0] if out else ""
        m = re.search(r"exit=(\d+) violations=(\d+) asserts=(\[.*\])", line)
        res[tier] = {"exit": int(m.group(1)), "violations": int(m.group(2)), "asserts": eval(m.group(3))} if m else {"exit": -1, "raw": line}
        if res[tier].get("exit") == 1:
            break
    meta["checked_with"] = res
    meta["detected"] = any(r.get("exit") == 1 for r in res.values())
    json.dump(meta, open(os.path.join(p, "meta.json"), "w"), indent=1)
    tier = [t for t, r in res.items() if r.get("exit") == 1]
    rows.append((d, meta["property"], tier[0] if tier else "MISSED", ", ".join(res[tier[0]]["asserts"][:4]) if tier else ""))
    print(rows[-1], flush=True)
with open(os.path.join(V, "seeded", "MATRIX.md"), "w") as f:
    f.write("| seed | property | caught by tier | assertions that fired |\n|---|---|---|---|\n")
    for r in rows:
        f.write("| %s | %s | %s | %s |\n" % r)
