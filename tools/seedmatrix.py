#!/usr/bin/env python3
"""tools/seedmatrix.py [seed names...]   runs the owning check (quick; thorough if quick misses) against the given
seeded changes (default: all) and records the result in seeded/<id>/meta.json;
tools/seedmatrix.py --assemble           writes seeded/MATRIX.md from all meta.json files."""
import json, os, re, subprocess, sys
V = "/verif"
SD = os.path.join(V, "seeded")


def assemble():
    rows = []
    for d in sorted(os.listdir(SD)):
        mp = os.path.join(SD, d, "meta.json")
        if not os.path.exists(mp):
            continue
        meta = json.load(open(mp))
        res = meta.get("checked_with", {})
        tier = [t for t in ("quick", "thorough") if res.get(t, {}).get("exit") == 1]
        rows.append((d, meta["property"], tier[0] if tier else ("MISSED" if res else "not run"),
                     ", ".join(res[tier[0]]["asserts"][:4]) if tier else ""))
    with open(os.path.join(SD, "MATRIX.md"), "w") as f:
        f.write("| seed | property | caught by tier | assertions that fired |\n|---|---|---|---|\n")
        for r in rows:
            f.write("| %s | %s | %s | %s |\n" % r)
    n = len(rows)
    q = sum(1 for r in rows if r[2] == "quick")
    t = sum(1 for r in rows if r[2] == "thorough")
    print("%d seeds: %d caught by quick, %d by thorough only, %d missed/not run" % (n, q, t, n - q - t))


if len(sys.argv) > 1 and sys.argv[1] == "--assemble":
    assemble()
    sys.exit(0)
only = sys.argv[1:]
for d in sorted(os.listdir(SD)):
    p = os.path.join(SD, d)
    if not os.path.isdir(p) or (only and d not in only):
        continue
    meta = json.load(open(os.path.join(p, "meta.json")))
    res = {}
    for tier in os.environ.get("MATRIX_TIERS", "quick,thorough").split(","):
        out = subprocess.run([os.path.join(V, "tools", "seedrun.py"), p, tier], capture_output=True, text=True).stdout.strip().splitlines()
        line = out[0] if out else ""
        m = re.search(r"exit=(\d+) violations=(\d+) asserts=(\[.*\])", line)
        res[tier] = {"exit": int(m.group(1)), "violations": int(m.group(2)), "asserts": eval(m.group(3))} if m else {"exit": -1, "raw": line}
        if res[tier].get("exit") == 1:
            break
    meta["checked_with"] = res
    meta["detected"] = any(r.get("exit") == 1 for r in res.values())
    json.dump(meta, open(os.path.join(p, "meta.json"), "w"), indent=1)
    print(d, {t: (r.get("exit"), r.get("asserts", [])[:3]) for t, r in res.items()}, flush=True)
