#!/bin/bash
# tools/seedverify.sh <Cxx> <i> [race]: confirm a seeded change in its scratch worktree, then file it under /verif/seeded/<Cxx>-<i>
set -u
P=$1; I=$2; RACE=${3:-}
WT=${WTBASE:-/tmp/wt}-$P; S=$WT/SEED/$I
export GOFLAGS=-mod=mod GOPROXY=off GOSUMDB=off GOTOOLCHAIN=local
cd $WT || exit 1
git checkout -q -- . ; rm -f zz_seed_demo_test.go
git apply --check $S/patch.diff || { echo "PATCH does not apply"; exit 1; }
if git apply --stat $S/patch.diff | grep -q "_test.go"; then echo "PATCH touches tests"; exit 1; fi
TESTNAME=$(grep -o "^func Test[A-Za-z0-9_]*" $S/demo_test.go | head -1 | sed 's/func //')
cp $S/demo_test.go zz_seed_demo_test.go
RF=""; [ -n "$RACE" ] && RF="-race"
timeout 300 go test $RF -vet=off -count=1 -run "^$TESTNAME\$" . > /tmp/sv-$P-$I-clean.log 2>&1; CLEAN=$?
rm -f zz_seed_demo_test.go
git apply $S/patch.diff
timeout 300 go test -vet=off -count=1 . > /tmp/sv-$P-$I-suite.log 2>&1; SUITE=$?
cp $S/demo_test.go zz_seed_demo_test.go
timeout 300 go test $RF -vet=off -count=1 -run "^$TESTNAME\$" . > /tmp/sv-$P-$I-mut.log 2>&1; MUT=$?
rm -f zz_seed_demo_test.go; git checkout -q -- .
echo "$P/$I demo_clean_exit=$CLEAN suite_with_patch_exit=$SUITE demo_with_patch_exit=$MUT test=$TESTNAME"
if [ $CLEAN -eq 0 ] && [ $SUITE -eq 0 ] && [ $MUT -ne 0 ]; then
  D=/verif/seeded/$P-${SEEDTAG:-}$I; mkdir -p $D; cp $S/patch.diff $S/demo_test.go $D/; cp $S/README.md $D/AGENT_README.md
  python3 - <<PY
import json
json.dump({"property":"$P","seed":"$P-${SEEDTAG:-}$I","source":"independent sub-agent given only the property text and a scratch worktree","demo_test":"$TESTNAME","race_flag":bool("$RACE"),
 "confirmed":{"existing_suite_with_patch":"pass","demo_with_patch":"fail","demo_without_patch":"pass","how":"tools/seedverify.sh $P $I $RACE in the scratch worktree /tmp/wt-$P (removed afterwards)"}},open("$D/meta.json","w"),indent=1)
PY
  echo "  filed as $D"
else
  echo "  NOT CONFIRMED (see /tmp/sv-$P-$I-*.log)"
fi
