#!/usr/bin/env python3
"""Prints the per-property table of harness groups and bounds (from checks_table.py) for DESIGN.md §A1."""
import sys
sys.path.insert(0, "/verif")
from checks_table import CHECKS
print("| property | group | harnesses | quick bounds | thorough bounds |")
print("|---|---|---|---|---|")
for pid in sorted(CHECKS):
    for g in CHECKS[pid]["groups"]:
        q = " ".join(g["flags"].get("quick", [])) if not g.get("thorough_only") else "—"
        t = " ".join(g["flags"].get("thorough", g["flags"].get("quick", [])))
        hs = ", ".join(h.replace("VerifH_", "") for h in g["harnesses"])
        print("| %s | %s | %s | `%s` | `%s` |" % (pid, g["name"], hs, q or "defaults", t or "defaults"))
