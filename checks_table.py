# Which harness groups decide which property, with the bounds per tier.
# A "unit" group names unexported anchors; if it no longer type-checks against an
# edited tree it is skipped (recorded in the evidence), never an alarm.

def P(**kw):
    return "-params=" + ",".join("%s=%d" % kv for kv in kw.items())

CHECKS = {
    "C05": {
        "groups": [
            {"name": "c05-unit", "files": ["h_c04.go", "h_c14.go", "h_c05.go"],
             "harnesses": ["VerifH_C05_RemainingLength", "VerifH_C05_Pack", "VerifH_C05_Publish", "VerifH_C05_PublishBig",
                           "VerifH_C05_Subscribe", "VerifH_C05_Unsubscribe", "VerifH_C05_Acks", "VerifH_C05_Connect", "VerifH_C05_Inbound"],
             "flags": {"quick": [], "thorough": ["-xsolver=cvc5", P(huge=1)]},
             "reach": {"VerifH_C05_RemainingLength": ["encoded"], "VerifH_C05_Connect": ["connect-written"], "VerifH_C05_Publish": ["packed"]}},
        ],
        "assumptions": ["reference codec harness/refcodec.go written from the OASIS text is the oracle"],
    },
    "C06": {
        "groups": [
            {"name": "c06-unit", "files": ["h_c06.go"],
             "harnesses": ["VerifH_C06_Parsers", "VerifH_C06_ReadPacket", "VerifH_C06_Serve", "VerifH_C06_Connect"],
             "flags": {"quick": ["-loop=16"], "thorough": ["-xsolver=cvc5", "-loop=16", P(maxlen=6, maxstream=12, maxbody=5)]},
             "reach": {"VerifH_C06_Parsers": ["parsed", "publish-parsed"], "VerifH_C06_ReadPacket": ["returned"], "VerifH_C06_Serve": ["served"], "VerifH_C06_Connect": ["done"]}},
        ],
    },
    "C04": {
        "groups": [
            {"name": "c04-serve", "files": ["h_c04.go"], "harnesses": ["VerifH_C04_Inbound"],
             "flags": {"quick": [P(maxpackets=3)], "thorough": ["-xsolver=cvc5", P(maxpackets=5)]},
             "reach": {"VerifH_C04_Inbound": ["served", "pubrel-known"]}},
        ],
        "assumptions": ["packets arrive on one connection; the handler returns"],
    },
    "C08": {
        "groups": [
            {"name": "c08-applyto", "files": ["h_c08.go"], "harnesses": ["VerifH_C08_ApplyTo"],
             "flags": {"quick": [P(maxcalls=3)], "thorough": ["-xsolver=cvc5", P(maxcalls=4)]},
             "reach": {"VerifH_C08_ApplyTo": ["applied"]}},
            {"name": "u-resub", "files": ["h_resub.go"], "harnesses": ["VerifH_Resub_Pass"], "concurrent": True,
             "flags": {"quick": [P(maxpending=3, maxsubs=2)], "thorough": [P(maxpending=4, maxsubs=3)]},
             "reach": {"VerifH_Resub_Pass": ["pass-done", "interrupted"]}},
            {"name": "c08-sys", "files": ["h_sys_c08.go"], "harnesses": ["VerifH_SYS_C08"], "concurrent": True,
             "flags": {"quick": [P(nreq=2, faults=1)], "thorough": [P(nreq=3, faults=1, withpub=1, latecut=0)]},
             "reach": {"VerifH_SYS_C08": ["quiescent"]}},
            {"name": "c08-sys-f2", "files": ["h_sys_c08.go"], "harnesses": ["VerifH_SYS_C08"], "concurrent": True, "thorough_only": True,
             "flags": {"thorough": [P(nreq=2, faults=2, latecut=0)]},
             "reach": {"VerifH_SYS_C08": ["quiescent"]}},
        ],
    },
    "C14": {
        "groups": [
            {"name": "c14", "files": ["h_c14.go"], "harnesses": ["VerifH_C14_Filter", "VerifH_C14_Mux"],
             "flags": {"quick": [P(maxf=3, maxt=3, maxfilters=2, maxmf=2, maxmt=2)],
                       "thorough": ["-xsolver=cvc5", P(maxf=5, maxt=4, maxfilters=3, maxmf=2, maxmt=3)]},
             "reach": {"VerifH_C14_Filter": ["matched", "rejected"], "VerifH_C14_Mux": ["served"]}},
        ],
        "assumptions": ["filter bytes over {/,+,#,a,b}, topic bytes over {/,a,b} (the code compares other bytes only for equality)"],
    },
    "C15": {
        "groups": [
            {"name": "c15-seq", "files": ["h_c15.go"], "harnesses": ["VerifH_C15_NewID", "VerifH_C15_CycleLemma", "VerifH_C15_PresetID"],
             "flags": {"quick": [P(calls=8)], "thorough": ["-xsolver=cvc5", "-loop=400", P(calls=16)]},
             "reach": {"VerifH_C15_NewID": ["ids"], "VerifH_C15_CycleLemma": ["lemma"], "VerifH_C15_PresetID": ["written"]}},
            {"name": "c15-sys", "files": ["h_sys.go"], "harnesses": ["VerifH_SYS_C15"], "concurrent": True,
             "flags": {"quick": [P(nreq=2, faults=1)], "thorough": [P(nreq=3, faults=2)]},
             "reach": {"VerifH_SYS_C15": ["quiescent", "publish-with-preset-id"]}},
            {"name": "c15-conc", "files": ["h_c15.go"], "harnesses": ["VerifH_C15_Concurrent", "VerifH_C15_AcrossReconnect"], "concurrent": True,
             "flags": {"quick": ["-race", "-delays=2", P(threads=2, percaller=2)], "thorough": ["-race", "-delays=3", P(threads=3, percaller=2)]},
             "reach": {"VerifH_C15_Concurrent": ["joined"], "VerifH_C15_AcrossReconnect": ["both-outstanding"]}},
        ],
    },
    "C19": {
        "groups": [
            {"name": "c19", "files": ["h_c19.go"], "harnesses": ["VerifH_C19_Chain", "VerifH_C19_Timeout"],
             "flags": {"quick": [P(maxdepth=3)], "thorough": [P(maxdepth=5)]},
             "reach": {"VerifH_C19_Chain": ["built"], "VerifH_C19_Timeout": ["expired"]}},
            {"name": "u-handle", "files": ["h_c11.go", "h_handle.go"], "harnesses": ["VerifH_Handle_Chain"], "concurrent": True,
             "flags": {"quick": [P(maxdepth=2)], "thorough": [P(maxdepth=3)]},
             "reach": {"VerifH_Handle_Chain": ["completed", "retransmitted"]}},
        ],
    },
    "C20": {
        "groups": [
            {"name": "c20", "files": ["h_c14.go", "h_c20.go"], "harnesses": ["VerifH_C20_Mux", "VerifH_C20_Async"],
             "flags": {"quick": ["-delays=1"], "thorough": ["-delays=2"]}, "concurrent": False,
             "reach": {"VerifH_C20_Mux": ["served"], "VerifH_C20_Async": ["async-ran"]}},
        ],
    },
    "C02": {
        "groups": [
            {"name": "c02-sys", "files": ["h_sys.go"], "harnesses": ["VerifH_SYS_C02"], "concurrent": True,
             "flags": {"quick": [P(nreq=1, faults=1)], "thorough": [P(nreq=2, faults=2, withsub=1, always=1)]},
             "reach": {"VerifH_SYS_C02": ["quiescent", "pubcomp-read"]}},
            {"name": "u-resub", "files": ["h_resub.go"], "harnesses": ["VerifH_Resub_Pass"], "concurrent": True,
             "flags": {"quick": [P(maxpending=3, maxsubs=2)], "thorough": [P(maxpending=4, maxsubs=3)]},
             "reach": {"VerifH_Resub_Pass": ["pass-done", "interrupted"]}},
            {"name": "u-retry", "files": ["h_retry.go"], "harnesses": ["VerifH_Retry_Pass", "VerifH_Retry_QueuedFail"], "concurrent": True,
             "flags": {"quick": [P(maxqueue=4, maxqueued=3)], "thorough": [P(maxqueue=6, maxqueued=4)]},
             "reach": {"VerifH_Retry_Pass": ["pass-done", "failed-entry"], "VerifH_Retry_QueuedFail": ["dead-pass-done"]}},
        ],
    },
    "C01": {
        "groups": [
            {"name": "c01-sys", "files": ["h_sys.go"], "harnesses": ["VerifH_SYS_C01"], "concurrent": True,
             "flags": {"quick": [P(nreq=2, faults=1, sessionloss=1, always=1)], "thorough": [P(nreq=2, faults=2, connectfaults=1, dialfaults=1, sessionloss=1, always=1)]},
             "reach": {"VerifH_SYS_C01": ["quiescent"]}},
            {"name": "c01-timeout", "files": ["h_sys.go", "h_sys_c18.go"], "harnesses": ["VerifH_SYS_C18"], "concurrent": True,
             "flags": {"quick": [P(nreq=1, faults=1)], "thorough": [P(nreq=2, faults=2, cuts=1)]},
             "reach": {"VerifH_SYS_C18": ["quiescent", "answer-dropped"]}},
            {"name": "u-handle", "files": ["h_c11.go", "h_handle.go"], "harnesses": ["VerifH_Handle_Chain"], "concurrent": True,
             "flags": {"quick": [P(maxdepth=2)], "thorough": [P(maxdepth=3)]},
             "reach": {"VerifH_Handle_Chain": ["completed", "retransmitted"]}},
            {"name": "u-resub", "files": ["h_resub.go"], "harnesses": ["VerifH_Resub_Pass"], "concurrent": True,
             "flags": {"quick": [P(maxpending=3, maxsubs=2)], "thorough": [P(maxpending=4, maxsubs=3)]},
             "reach": {"VerifH_Resub_Pass": ["pass-done", "interrupted"]}},
            {"name": "u-retry", "files": ["h_retry.go"], "harnesses": ["VerifH_Retry_Pass", "VerifH_Retry_QueuedFail"], "concurrent": True,
             "flags": {"quick": [P(maxqueue=4, maxqueued=3)], "thorough": [P(maxqueue=6, maxqueued=4)]},
             "reach": {"VerifH_Retry_Pass": ["pass-done", "failed-entry"], "VerifH_Retry_QueuedFail": ["dead-pass-done"]}},
        ],
    },
    "C03": {
        "groups": [
            {"name": "c03-sys", "files": ["h_sys.go"], "harnesses": ["VerifH_SYS_C03"], "concurrent": True,
             "flags": {"quick": [P(nreq=2, faults=1)], "thorough": [P(nreq=3, faults=2)]},
             "reach": {"VerifH_SYS_C03": ["quiescent"]}},
            {"name": "u-resub", "files": ["h_resub.go"], "harnesses": ["VerifH_Resub_Pass"], "concurrent": True,
             "flags": {"quick": [P(maxpending=3, maxsubs=2)], "thorough": [P(maxpending=4, maxsubs=3)]},
             "reach": {"VerifH_Resub_Pass": ["pass-done", "interrupted"]}},
            {"name": "u-retry", "files": ["h_retry.go"], "harnesses": ["VerifH_Retry_Pass", "VerifH_Retry_QueuedFail"], "concurrent": True,
             "flags": {"quick": [P(maxqueue=4, maxqueued=3)], "thorough": [P(maxqueue=6, maxqueued=4)]},
             "reach": {"VerifH_Retry_Pass": ["pass-done", "failed-entry"], "VerifH_Retry_QueuedFail": ["dead-pass-done"]}},
        ],
    },
    "C12": {
        "groups": [
            {"name": "c12-sys", "files": ["h_sys.go"], "harnesses": ["VerifH_SYS_C12"], "concurrent": True,
             "flags": {"quick": [P(nreq=2, faults=1)], "thorough": [P(nreq=2, faults=2)]},
             "reach": {"VerifH_SYS_C12": ["quiescent", "retransmission"]}},
            {"name": "u-handle", "files": ["h_c11.go", "h_handle.go"], "harnesses": ["VerifH_Handle_Chain"], "concurrent": True,
             "flags": {"quick": [P(maxdepth=2)], "thorough": [P(maxdepth=3)]},
             "reach": {"VerifH_Handle_Chain": ["completed", "retransmitted"]}},
            {"name": "u-retry", "files": ["h_retry.go"], "harnesses": ["VerifH_Retry_Pass", "VerifH_Retry_QueuedFail"], "concurrent": True,
             "flags": {"quick": [P(maxqueue=4, maxqueued=3)], "thorough": [P(maxqueue=6, maxqueued=4)]},
             "reach": {"VerifH_Retry_Pass": ["pass-done", "failed-entry"], "VerifH_Retry_QueuedFail": ["dead-pass-done"]}},
        ],
    },
    "C18": {
        "groups": [
            {"name": "c18-first", "files": ["h_sys.go", "h_sys_c18.go"], "harnesses": ["VerifH_SYS_C18"], "concurrent": True,
             "flags": {"quick": [P(nreq=1, faults=1)], "thorough": [P(nreq=2, faults=1)]},
             "reach": {"VerifH_SYS_C18": ["quiescent", "answer-dropped"]}},
            {"name": "c18-retransmission", "files": ["h_sys.go", "h_sys_c18.go"], "harnesses": ["VerifH_SYS_C18"], "concurrent": True,
             "flags": {"quick": [P(nreq=1, faults=2, cuts=1)], "thorough": [P(nreq=2, faults=2, cuts=1)]},
             "reach": {"VerifH_SYS_C18": ["quiescent", "answer-dropped"]}},
        ],
    },
    "C09": {
        "groups": [
            {"name": "c09-sys", "files": ["h_sys_c09.go"], "harnesses": ["VerifH_SYS_C09"], "concurrent": True,
             "flags": {"quick": [P(faults=2)], "thorough": [P(faults=3)]},
             "reach": {"VerifH_SYS_C09": ["quiescent", "redial"]}},
            {"name": "c09-keepalive", "files": ["h_sys_c16.go"], "harnesses": ["VerifH_SYS_C16"], "concurrent": True,
             "flags": {"quick": ["-ticks=6", P(faults=0)], "thorough": ["-ticks=8", P(faults=1)]},
             "reach": {"VerifH_SYS_C16": ["end", "silent-peer"]}},
        ],
    },
    "C17": {
        "groups": [
            {"name": "c17-sys", "files": ["h_sys_c17.go"], "harnesses": ["VerifH_SYS_C17"], "concurrent": True,
             "flags": {"quick": [P(faults=1)], "thorough": [P(faults=3)]},
             "reach": {"VerifH_SYS_C17": ["quiescent", "inbound-after-handle"]}},
        ],
    },
    "C13": {
        "groups": [
            {"name": "c13-keepalive", "files": ["h_c13.go"], "harnesses": ["VerifH_C13_KeepAlive", "VerifH_C13_PromptPeer"], "concurrent": True,
             "flags": {"quick": [P(pings=2)], "thorough": [P(pings=3)]},
             "reach": {"VerifH_C13_KeepAlive": ["returned", "cancelled", "late-answer", "silent", "ping-error", "parent-deadline"], "VerifH_C13_PromptPeer": ["returned"]}},
            {"name": "c13-keepalive-free", "files": ["h_c13.go"], "harnesses": ["VerifH_C13_KeepAlive"], "concurrent": True, "thorough_only": True,
             "flags": {"thorough": ["-solver=cvc5", P(pings=1, timeout_lt_interval=0)]},
             "reach": {"VerifH_C13_KeepAlive": ["returned"]}},
            {"name": "c13-sys", "files": ["h_sys_c16.go"], "harnesses": ["VerifH_SYS_C16"], "concurrent": True,
             "flags": {"quick": ["-ticks=6", P(faults=1)], "thorough": ["-ticks=8", P(faults=2)]},
             "reach": {"VerifH_SYS_C16": ["end", "silent-peer"]}},
        ],
    },
    "C16": {
        "groups": [
            {"name": "c16-base", "files": ["h_c16.go"], "harnesses": ["VerifH_C16_Base"], "concurrent": True,
             "flags": {"quick": ["-delays=1"], "thorough": ["-delays=2"]},
             "reach": {"VerifH_C16_Base": ["end", "disconnect", "no-disconnect"]}},
            {"name": "c16-sys", "files": ["h_sys_c16.go"], "harnesses": ["VerifH_SYS_C16"], "concurrent": True,
             "flags": {"quick": ["-ticks=6", P(faults=1)], "thorough": ["-ticks=8", P(faults=2)]},
             "reach": {"VerifH_SYS_C16": ["end", "healthy-last", "after-disconnect"]}},
            {"name": "c16-sys-d1", "files": ["h_sys_c16.go"], "harnesses": ["VerifH_SYS_C16"], "concurrent": True,
             "flags": {"quick": ["-delays=1", "-ticks=4", P(faults=0)], "thorough": ["-delays=1", "-ticks=6", P(faults=1)]},
             "reach": {"VerifH_SYS_C16": ["end", "silent-peer"]}},
        ],
    },
    "C10": {
        "groups": [
            {"name": "c10-base", "files": ["h_c10.go"], "concurrent": True,
             "harnesses": ["VerifH_C10_Publish", "VerifH_C10_Mixed", "VerifH_C10_Connect", "VerifH_C10_Close"],
             "flags": {"quick": ["-race", "-delays=1"], "thorough": ["-race", "-delays=1"]},
             "reach": {"VerifH_C10_Publish": ["checked"], "VerifH_C10_Mixed": ["checked"], "VerifH_C10_Connect": ["end"], "VerifH_C10_Close": ["end"]}},
            {"name": "c10-base-d2", "files": ["h_c10.go"], "concurrent": True, "thorough_only": True,
             "harnesses": ["VerifH_C10_Connect", "VerifH_C10_Close"],
             "flags": {"thorough": ["-race", "-delays=2"]},
             "reach": {"VerifH_C10_Connect": ["end"], "VerifH_C10_Close": ["end"]}},
            {"name": "c10-retry", "files": ["h_c10.go"], "concurrent": True,
             "harnesses": ["VerifH_C10_Retry"],
             "flags": {"quick": ["-race", "-delays=1", P(faults=1)], "thorough": ["-race", "-delays=1", P(faults=2)]},
             "reach": {"VerifH_C10_Retry": ["end"]}},
        ],
    },
    "C11": {
        "groups": [
            {"name": "c11-base", "files": ["h_c11.go"], "harnesses": ["VerifH_C11_Blocking"], "concurrent": True,
             "flags": {"quick": ["-delays=1"], "thorough": ["-delays=2"]},
             "reach": {"VerifH_C11_Blocking": ["after-cause", "connection-ended", "final"]}},
            {"name": "c11-reconnect-any", "files": ["h_sys_c09.go"], "harnesses": ["VerifH_SYS_C09"], "concurrent": True,
             "flags": {"quick": ["-delays=1", P(faults=0, stopany=1)], "thorough": ["-delays=1", P(faults=1, stopany=1)]},
             "reach": {"VerifH_SYS_C09": ["quiescent"]}},
            {"name": "c11-reconnect", "files": ["h_sys_c09.go"], "harnesses": ["VerifH_SYS_C09"], "concurrent": True,
             "flags": {"quick": [P(faults=1)], "thorough": [P(faults=2)]},
             "reach": {"VerifH_SYS_C09": ["quiescent"]}},
        ],
    },
    "C07": {
        "groups": [
            {"name": "c07-acks-d1", "files": ["h_c11.go", "h_c07.go"], "harnesses": ["VerifH_C07_Acks", "VerifH_C07_Prompt"], "concurrent": True, "thorough_only": True,
             "flags": {"thorough": ["-delays=1", P(callers=2, acks=1)]},
             "reach": {"VerifH_C07_Acks": ["end"], "VerifH_C07_Prompt": ["end"]}},
            {"name": "c07-acks", "files": ["h_c11.go", "h_c07.go"], "harnesses": ["VerifH_C07_Acks", "VerifH_C07_SubAck", "VerifH_C07_Prompt"], "concurrent": True,
             "flags": {"quick": [P(callers=2, acks=2)], "thorough": [P(callers=2, acks=3)]},
             "reach": {"VerifH_C07_Acks": ["end", "completed"], "VerifH_C07_SubAck": ["subscribed"], "VerifH_C07_Prompt": ["end"]}},
        ],
    },
}
