# Which harness groups decide which property, with the bounds per tier.
# A "unit" group names unexported anchors; if it no longer type-checks against an
# edited tree it is skipped (recorded in the evidence), never an alarm.

def P(**kw):
    return "-params=" + ",".join("%s=%d" % kv for kv in kw.items())

CHECKS = {
    "C05": {
        "groups": [
            {"name": "c05-unit", "files": ["h_c05.go"],
             "harnesses": ["VerifH_C05_RemainingLength", "VerifH_C05_Pack", "VerifH_C05_Publish", "VerifH_C05_PublishBig",
                           "VerifH_C05_Subscribe", "VerifH_C05_Unsubscribe", "VerifH_C05_Acks", "VerifH_C05_Connect"],
             "flags": {"quick": [], "thorough": [P(huge=1)]},
             "reach": {"VerifH_C05_RemainingLength": ["encoded"], "VerifH_C05_Connect": ["connect-written"], "VerifH_C05_Publish": ["packed"]}},
        ],
        "assumptions": ["reference codec harness/refcodec.go written from the OASIS text is the oracle"],
    },
    "C06": {
        "groups": [
            {"name": "c06-unit", "files": ["h_c06.go"],
             "harnesses": ["VerifH_C06_Parsers", "VerifH_C06_ReadPacket", "VerifH_C06_Serve", "VerifH_C06_Connect"],
             "flags": {"quick": ["-loop=16"], "thorough": ["-loop=16", P(maxlen=6, maxstream=12, maxbody=5)]},
             "reach": {"VerifH_C06_Parsers": ["parsed", "publish-parsed"], "VerifH_C06_ReadPacket": ["returned"], "VerifH_C06_Serve": ["served"], "VerifH_C06_Connect": ["done"]}},
        ],
    },
}
