#!/usr/bin/env python3
"""Regenerates MANIFEST.json from checks_table.py + manifest_text.py (kept in sync by hand)."""
import json, os
V = os.path.dirname(os.path.abspath(__file__))
import sys
sys.path.insert(0, V)
from checks_table import CHECKS
from manifest_text import TEXT, NA

props = [json.loads(l) for l in open(os.path.join(V, "properties.jsonl"))]
checks = []
for p in props:
    pid = p["id"]
    if pid not in CHECKS or pid in NA:
        continue
    t = TEXT[pid]
    checks.append({
        "property_id": pid,
        "quick_cmd": "./check %s quick" % pid,
        "thorough_cmd": "./check %s thorough" % pid,
        "evidence_file": "/verif/evidence/%s.json" % pid,
        "replay_cmd_template": "./check replay {path}",
        "engine": "symgo",
        "level_claimed": {"category": "model_checking", "text": t["text"], "design_ref": t.get("ref", "DESIGN.md §4 " + pid)},
        "level_note": t["note"],
        "technique": t.get("technique", "bounded symbolic execution of the go/ssa of /repo; assertions and run-time-error sites discharged by z3 (QF_BV) per path"),
    })
na = [{"property_id": p["id"], "reason": NA.get(p["id"], "check not built yet (framework under construction); no other technique substituted")} for p in props if p["id"] not in CHECKS or p["id"] in NA]
m = {
    "version": 1,
    "setup_cmd": "./setup.sh",
    "hooks": {"guard": "verif", "enable": "no source hooks: harness files (package mqtt) are injected through a go/packages overlay for the symbolic executor and through go test -overlay for native replay; nothing is written into /repo",
              "baseline_off_cmd": "cd /repo && GOFLAGS=-mod=mod go test -vet=off -count=1 ./...", "source_commits": [], "add_only": True},
    "engines": [{"name": "symgo", "path": "/verif/engine", "serves_properties": [c["property_id"] for c in checks],
                 "kind_free_text": "purpose-built symbolic executor for go/ssa (x/tools v0.29.0 vendored): bit-vector terms, forking with stateless re-execution, z3 -in per worker, delay-bounded thread scheduler, virtual time, native replay of counterexamples"}],
    "checks": checks,
    "not_applicable": na,
    "notes": "Exit 0 = held on everything explored within the bounds recorded in evidence; 1 = violation (natively replayed); 2 = inconclusive (bound hit, solver unknown, unsupported construct) — never reported as held. Genuine defects found and repaired are listed as fixed: lines in KNOWN_FINDINGS.txt.",
}
json.dump(m, open(os.path.join(V, "MANIFEST.json"), "w"), indent=1)
print("checks:", [c["property_id"] for c in checks], "na:", len(na))
