package mqtt

// vbroker: executable model of a conforming MQTT 3.1.1 broker, used as Dialer.
// Every client packet is decoded with the independent reference decoder, processed
// synchronously inside Write, and answered by appending to the connection's read
// queue.  Faults are injected by verifChoice while the budget lasts; afterwards the
// broker "stays reachable".  See DESIGN.md Appendix E.

import (
	"context"
	"errors"
)

var errVbDial = errors.New("vbroker: dial failed")

const (
	vfNone      = 0
	vfWriteErr  = 1 // close, Write returns an error, nothing processed
	vfCutBefore = 2 // close, Write returns nil, nothing processed (packet lost)
	vfCutAfter  = 3 // processed, answer discarded, close
	vfDrop      = 4 // processed, answer discarded, connection stays up (C18)
	vfRefuse    = 5 // CONNECT only: CONNACK with a refusal code, then close
	vfSilent    = 6 // CONNECT only: no CONNACK at all
	vfGarbage   = 7 // processed, but the answer is a malformed packet (protocol error)
)

type vbAttempt struct {
	seq     int
	conn    int
	p       refPacket
	outcome byte // 'o' processed+answered, 'e' write error, 'l' lost, 'a' answer lost, 'd' answer dropped, 'x' connection already closed, 'i' ignored (connection not accepted)
	at      int64 // virtual time of the attempt (when stamping is on)
	tag     int  // request tag: PUBLISH payload[0]; SUBSCRIBE/UNSUBSCRIBE filter[1]; PUBREL: tag of the message with that id
}

type vbAck struct {
	tag  int
	kind byte // packet type of the acknowledgement
	conn int
	end  int // offset in the connection's injected stream after this answer
}

type vbSub struct {
	filter string
	qos    byte
}

type vbroker struct {
	onRedial func() // called at the start of every re-dial (harness hook)
	conns    []*vconn
	accepted []bool
	dials    int
	maxDials int

	// configuration
	methodB       bool
	budget        int
	allowDrop     bool
	allowConnect  bool // refuse / silent CONNACK faults
	allowDialErr  bool
	allowWriteErr bool
	sessionLoss   bool // a reconnect may find the session gone
	onAccept      func(b *vbroker, c *vconn)

	// session state
	hasSession bool
	subs       []vbSub
	q2ids      []uint16
	q2tag      []int
	q2stored   []bool

	// logs
	seq        int
	attempts   []vbAttempt
	acks       []vbAck
	deliveries []int // tags, in order
	delivConn  []int
	connects   []refPacket
	spLog      []bool // per connection: CONNACK said session present
	lastTagOf  []int // per connection: id -> tag is looked up from attempts
	events     bool
	silentAll  bool // broker stops answering PINGREQ (C13)
	silentArmed bool
	noCuts     bool // only the "drop" fault is offered
	gateDial   bool // every re-dial parks until the system is idle
	dialStarts int
	downgrade  bool // SUBACK grants QoS 0 on the first connection whatever was requested
	allowGarbage bool
	clients    []*BaseClient
	states     [][]ConnState
	stateErrs  [][]error
	silentConn int // connection on which PINGREQ is no longer answered (-1 none)
	silentFrom int // number of PINGREQs answered on it before going silent
	pingsSeen  []int
	silentAt   []int64
	dialTimes  []int64
	dialOK     []bool
	stamp      bool // record virtual times
	onState    func(ci int, s ConnState, err error) // application part of the ConnState callback
}

func itoa(n int) string {
	if n == 0 {
		return "0"
	}
	neg := n < 0
	if neg {
		n = -n
	}
	var d []byte
	for n > 0 {
		d = append([]byte{byte('0' + n%10)}, d...)
		n /= 10
	}
	if neg {
		return "-" + string(d)
	}
	return string(d)
}

func pktName(t byte) string {
	names := []string{"?", "CONNECT", "CONNACK", "PUBLISH", "PUBACK", "PUBREC", "PUBREL", "PUBCOMP", "SUBSCRIBE", "SUBACK", "UNSUBSCRIBE", "UNSUBACK", "PINGREQ", "PINGRESP", "DISCONNECT", "?"}
	return names[t&15]
}

func (b *vbroker) ev(s string) {
	verifEvent(s)
}

func (b *vbroker) DialContext(ctx context.Context) (*BaseClient, error) {
	verifLock()
	b.dialStarts++ // a dial counts from the moment it is started
	again := b.dialStarts > 1
	verifUnlock()
	if again && b.onRedial != nil {
		b.onRedial() // the application does something while a re-dial is in progress
	}
	if b.gateDial {
		if again {
			// a re-dial takes a while: other things (a Disconnect, say) can happen while it is in progress
			verifEvent("dialing")
			verifPause()
		}
	}
	verifLock()
	b.dials++
	n := len(b.conns)
	if b.maxDials > 0 && b.dials > b.maxDials {
		verifAssert(false, "SYS.progress_no_reconnect_livelock")
		verifUnlock()
		verifPause()
		return nil, errVbDial
	}
	// every transport handed out earlier must be closed by now (C09)
	for _, c := range b.conns {
		verifAssert(c.closed, "C09.one_live_transport")
	}
	if b.stamp {
		b.dialTimes = append(b.dialTimes, verifNow())
	}
	if b.allowDialErr && b.budget > 0 && verifChoice("dialfault", 2) == 1 {
		b.budget--
		b.dialOK = append(b.dialOK, false)
		b.ev("dial=err")
		verifUnlock()
		return nil, errVbDial
	}
	c := newVconn("c" + itoa(n))
	c.id = n
	c.hook = b
	b.conns = append(b.conns, c)
	b.dialOK = append(b.dialOK, true)
	b.accepted = append(b.accepted, false)
	b.ev("dial(c" + itoa(n) + ")")
	cli := &BaseClient{Transport: c}
	b.clients = append(b.clients, cli)
	b.states = append(b.states, nil)
	b.stateErrs = append(b.stateErrs, nil)
	b.pingsSeen = append(b.pingsSeen, 0)
	b.silentAt = append(b.silentAt, -1)
	cli.ConnState = func(s ConnState, err error) {
		verifLock()
		b.states[n] = append(b.states[n], s)
		b.stateErrs[n] = append(b.stateErrs[n], err)
		verifUnlock()
		verifEvent("c" + itoa(n) + ":state(" + s.String() + ")")
		if b.onState != nil {
			b.onState(n, s, err)
		}
	}
	verifUnlock()
	return cli, nil
}

func (b *vbroker) tagOfID(conn int, id uint16) int {
	// the message a packet id currently stands for: latest PUBLISH attempt with that id (ids persist across connections)
	for i := len(b.attempts) - 1; i >= 0; i-- {
		a := b.attempts[i]
		if a.p.typ == 3 && a.p.id == id && a.p.flags&0x06 != 0 {
			return a.tag
		}
	}
	return -1
}

func tagOfPacket(p refPacket) int {
	switch p.typ {
	case 3:
		if len(p.payload) > 0 {
			return int(p.payload[0])
		}
	case 8, 10:
		if len(p.filters) > 0 && len(p.filters[0]) > 1 {
			return int(p.filters[0][1])
		}
	}
	return -1
}

// attempt is called by vconn.Write for every write attempt (under verifLock).
// It returns the error Write must return (nil = accepted by the transport).
func (b *vbroker) attempt(c *vconn, raw []byte, alreadyClosed bool) error {
	p := refDecode(raw)
	verifAssert(p.ok, "C05.client_packet_wellformed")
	verifAssert(refFlagsOK(p), "C05.client_packet_flags")
	b.seq++
	a := vbAttempt{seq: b.seq, conn: c.id, p: p, tag: tagOfPacket(p)}
	if b.stamp {
		a.at = verifNow()
	}
	if p.typ == 6 {
		a.tag = b.tagOfID(c.id, p.id)
	}
	name := "c" + itoa(c.id) + ":>" + pktName(p.typ)
	if a.tag >= 0 {
		name += "(" + itoa(a.tag) + ")"
	}
	if p.typ == 3 && p.flags&0x08 != 0 {
		name += "dup"
	}
	if alreadyClosed {
		a.outcome = 'x'
		b.attempts = append(b.attempts, a)
		b.ev(name + "!closed")
		return errVconnClosed
	}
	fault := vfNone
	if b.budget > 0 {
		kinds := []int{vfNone, vfCutBefore, vfCutAfter}
		if b.noCuts {
			kinds = []int{vfNone}
		}
		if b.allowWriteErr && !b.noCuts {
			kinds = append(kinds, vfWriteErr)
		}
		if b.allowDrop && p.typ != 1 && p.typ != 12 && p.typ != 14 {
			kinds = append(kinds, vfDrop)
		}
		if b.allowConnect && p.typ == 1 {
			kinds = append(kinds, vfRefuse, vfSilent)
		}
		if b.allowGarbage {
			kinds = append(kinds, vfGarbage)
		}
		if p.typ == 14 {
			kinds = []int{vfNone}
		}
		if len(kinds) > 1 {
			fault = kinds[verifChoice("fault", len(kinds))]
		}
		if fault != vfNone {
			b.budget--
		}
	}
	switch fault {
	case vfWriteErr:
		a.outcome = 'e'
		b.attempts = append(b.attempts, a)
		b.ev(name + "!werr")
		c.eof = true
		c.signalLocked = true
		return errVconnWrite
	case vfCutBefore:
		a.outcome = 'l'
		b.attempts = append(b.attempts, a)
		b.ev(name + "!lost")
		c.eof = true
		c.signalLocked = true
		return nil
	}
	if p.typ != 1 && !b.accepted[c.id] {
		a.outcome = 'i'
		b.attempts = append(b.attempts, a)
		b.ev(name + "!ignored")
		return nil
	}
	switch fault {
	case vfCutAfter:
		a.outcome = 'a'
		b.ev(name + "!anslost")
	case vfDrop:
		a.outcome = 'd'
		b.ev(name + "!dropped")
	case vfSilent:
		a.outcome = 'd'
		b.ev(name + "!silent")
	case vfGarbage:
		a.outcome = 'a'
		b.ev(name + "!garbage")
	default:
		a.outcome = 'o'
		b.ev(name)
	}
	answer, ackKind := b.process(c, p, a.tag, fault)
	switch fault {
	case vfCutAfter:
		c.eof = true
		c.signalLocked = true
	case vfDrop, vfSilent:
	case vfGarbage:
		c.rbuf = append(c.rbuf, 0xF0, 0x00)
		c.nInjected += 2
		c.signalLocked = true
	default:
		if answer != nil {
			c.rbuf = append(c.rbuf, answer...)
			c.nInjected += len(answer)
			c.signalLocked = true
			if ackKind != 0 {
				b.acks = append(b.acks, vbAck{tag: a.tag, kind: ackKind, conn: c.id, end: c.nInjected})
			}
			if fault == vfRefuse {
				c.eof = true
			}
		}
	}
	b.attempts = append(b.attempts, a)
	if p.typ == 1 && a.outcome == 'o' && fault == vfNone && b.onAccept != nil {
		b.onAccept(b, c)
	}
	return nil
}

func (b *vbroker) deliver(tag int, conn int) {
	b.deliveries = append(b.deliveries, tag)
	b.delivConn = append(b.delivConn, conn)
	b.ev("deliver(" + itoa(tag) + ")")
}

func (b *vbroker) process(c *vconn, p refPacket, tag int, fault int) (answer []byte, ackKind byte) {
	switch p.typ {
	case 1:
		b.connects = append(b.connects, p)
		clean := p.cflags&0x02 != 0
		sp := byte(0)
		if fault == vfRefuse {
			b.ev("c" + itoa(c.id) + ":CONNACK(refused)")
			return []byte{0x20, 2, 0, 3}, 0
		}
		if fault == vfSilent {
			return nil, 0
		}
		lost := false
		if b.hasSession && !clean && b.sessionLoss && fault == vfNone && len(b.conns) > 1 {
			lost = verifChoice("sessionlost", 2) == 1
		}
		if clean || lost {
			b.hasSession = false
			b.subs = nil
			b.q2ids, b.q2tag, b.q2stored = nil, nil, nil
		}
		if b.hasSession {
			sp = 1
		}
		b.hasSession = !clean
		for len(b.spLog) <= c.id {
			b.spLog = append(b.spLog, false)
		}
		b.spLog[c.id] = sp == 1
		if fault == vfNone {
			b.accepted[c.id] = true
		}
		b.ev("c" + itoa(c.id) + ":CONNACK(sp=" + itoa(int(sp)) + ")")
		return []byte{0x20, 2, sp, 0}, 0
	case 3:
		qos := (p.flags >> 1) & 3
		switch qos {
		case 0:
			b.deliver(tag, c.id)
			return nil, 0
		case 1:
			b.deliver(tag, c.id)
			return refEncodeAck(0x40, p.id), 4
		default:
			idx := -1
			for i, id := range b.q2ids {
				if id == p.id {
					idx = i
				}
			}
			if b.methodB {
				if idx < 0 {
					b.q2ids = append(b.q2ids, p.id)
					b.q2tag = append(b.q2tag, tag)
					b.q2stored = append(b.q2stored, true)
				} else {
					b.q2tag[idx] = tag
				}
			} else {
				if idx < 0 {
					b.deliver(tag, c.id)
					b.q2ids = append(b.q2ids, p.id)
					b.q2tag = append(b.q2tag, tag)
					b.q2stored = append(b.q2stored, false)
				}
			}
			return refEncodeAck(0x50, p.id), 5
		}
	case 6:
		for i, id := range b.q2ids {
			if id == p.id {
				if b.q2stored[i] {
					b.deliver(b.q2tag[i], c.id)
				}
				b.q2ids = append(b.q2ids[:i:i], b.q2ids[i+1:]...)
				b.q2tag = append(b.q2tag[:i:i], b.q2tag[i+1:]...)
				b.q2stored = append(b.q2stored[:i:i], b.q2stored[i+1:]...)
				break
			}
		}
		return refEncodeAck(0x70, p.id), 7
	case 8:
		ans := []byte{0x90, byte(2 + len(p.filters)), byte(p.id >> 8), byte(p.id)}
		for i, f := range p.filters {
			b.setSub(string(f), p.qoss[i]) // what the client asked for
			g := p.qoss[i]
			if b.downgrade && len(b.conns) == 1 && g > 0 {
				g = 0 // a broker may grant less than requested
			}
			ans = append(ans, g)
		}
		return ans, 9
	case 10:
		for _, f := range p.filters {
			b.delSub(string(f))
		}
		return refEncodeAck(0xB0, p.id), 11
	case 12:
		if b.silentAll {
			return nil, 0
		}
		if b.silentArmed && b.silentConn == c.id && fault == vfNone {
			if b.pingsSeen[c.id] >= b.silentFrom {
				if b.silentAt[c.id] < 0 {
					b.silentAt[c.id] = verifNow()
					b.ev("c" + itoa(c.id) + ":silent")
				}
				return nil, 0
			}
		}
		b.pingsSeen[c.id]++
		return []byte{0xD0, 0}, 13
	case 14:
		c.eof = true
		c.signalLocked = true
		return nil, 0
	}
	return nil, 0
}

func (b *vbroker) setSub(f string, q byte) {
	for i := range b.subs {
		if b.subs[i].filter == f {
			b.subs[i].qos = q
			return
		}
	}
	b.subs = append(b.subs, vbSub{f, q})
}

func (b *vbroker) delSub(f string) {
	for i := range b.subs {
		if b.subs[i].filter == f {
			b.subs = append(b.subs[:i:i], b.subs[i+1:]...)
			return
		}
	}
}

// ackRead: did the client read an acknowledgement of this kind for this request?
func (b *vbroker) ackRead(tag int, kind byte) bool {
	for _, a := range b.acks {
		if a.tag == tag && a.kind == kind && b.conns[a.conn].nRead >= a.end {
			return true
		}
	}
	return false
}

// cutIdle: the broker closes the live connection on its own (unsolicited peer close).
func (b *vbroker) cutIdle() {
	verifIOWrite()
	verifLock()
	var c *vconn
	if n := len(b.conns); n > 0 && !b.conns[n-1].closed && !b.conns[n-1].eof {
		c = b.conns[n-1]
		c.eof = true
		b.ev("c" + itoa(c.id) + ":peerclose")
	}
	verifUnlock()
	if c != nil {
		c.signal()
	}
}
