package mqtt

// C08 (b): broker-side subscriptions converge to the application's calls, across
// reconnects with the session kept or lost, AlwaysResubscribe on/off.

import (
	"context"
	"time"
)

type c08Call struct {
	sub      bool
	f        byte
	q        byte
	accepted bool
	seq      int // broker sequence number when the call was made
}

func VerifH_SYS_C08() {
	nreq := verifParam("nreq", 2)
	budget := verifParam("faults", 1)
	b := &vbroker{budget: budget, sessionLoss: true}
	b.allowWriteErr = verifParam("werr", 0) == 1
	b.maxDials = 2*budget + 3
	always := verifChoice("alwaysresub", 2) == 1
	narrow := verifParam("narrow", 0) == 1 // one filter, one QoS, no downgrade, all calls after Connect: room for withpub within the quick budget
	if !narrow {
		b.downgrade = verifChoice("downgrade", 2) == 1
	}
	verifSetRand(100)
	rc := &RetryClient{}
	unit := time.Second
	if !verifSymbolic() {
		unit = 10 * time.Millisecond
	}
	cli, err := NewReconnectClient(b, WithReconnectWait(unit, 4*unit), WithTimeout(10*unit), WithRetryClient(rc), WithAlwaysResubscribe(always))
	verifAssert(err == nil, "SYS.new_client")
	var calls []c08Call
	for i := 0; i < nreq; i++ {
		c := c08Call{sub: verifChoice("op", 2) == 0, f: 'a', q: 1}
		if !narrow {
			c.f = byte('a' + verifChoice("filter", 2))
		}
		if !c.sub {
			c.q = 0
		} else if !narrow {
			c.q = byte(verifChoice("qos", 3))
		}
		calls = append(calls, c)
	}
	withPub := verifParam("withpub", 0) == 1
	var connErr error
	verifOnQuiescence(func() {
		verifReach("quiescent")
		if connErr != nil {
			return
		}
		verifLock()
		defer verifUnlock()
		// reference fold of the accepted calls
		var ref []vbSub
		for _, c := range calls {
			if !c.accepted {
				continue
			}
			f := string([]byte{'s', c.f})
			idx := -1
			for i := range ref {
				if ref[i].filter == f {
					idx = i
				}
			}
			if c.sub {
				if idx < 0 {
					ref = append(ref, vbSub{f, c.q})
				} else {
					ref[idx].qos = c.q
				}
			} else if idx >= 0 {
				ref = append(ref[:idx:idx], ref[idx+1:]...)
			}
		}
		verifAssert(len(ref) == len(b.subs), "C08.broker_table_equals_fold")
		for _, r := range ref {
			found := false
			for _, s := range b.subs {
				if s.filter == r.filter {
					found = true
					verifAssert(s.qos == r.qos, "C08.broker_table_qos_equals_fold")
				}
			}
			verifAssert(found, "C08.broker_table_equals_fold")
		}
		// No re-subscription on the first connection, nor on a reconnect with the session present
		// (unless AlwaysResubscribe).  Counted over completed exchanges so that retransmissions of
		// interrupted requests are never mistaken for fresh re-subscriptions: per filter, the number
		// of SUBSCRIBE exchanges whose SUBACK the client read is at most the application's calls
		// plus one per accepted reconnect on which re-subscribing is legitimate.
		legit := 0
		for ci := range b.conns {
			sp := ci < len(b.spLog) && b.spLog[ci]
			if ci > 0 && b.accepted[ci] && (!sp || always) {
				legit++
			}
		}
		for fi := 0; fi < 2; fi++ {
			f := byte('a' + fi)
			completed := 0
			for _, a := range b.acks {
				if a.kind == 9 && a.tag == int(f) && b.conns[a.conn].nRead >= a.end {
					completed++
				}
			}
			app := 0
			for _, c := range calls {
				if c.accepted && c.sub && c.f == f {
					app++
				}
			}
			verifAssert(completed <= app+legit, "C08.no_resubscribe_when_session_kept_or_first")
		}
	})
	ctx := context.Background()
	submit := func(c *c08Call) {
		verifLock()
		c.seq = b.seq
		verifUnlock()
		var err error
		if c.sub {
			_, err = cli.Subscribe(ctx, Subscription{Topic: string([]byte{'s', c.f}), QoS: QoS(c.q)})
			verifEvent("app:sub(" + string([]byte{c.f}) + "," + itoa(int(c.q)) + ")")
		} else {
			err = cli.Unsubscribe(ctx, string([]byte{'s', c.f}))
			verifEvent("app:unsub(" + string([]byte{c.f}) + ")")
		}
		c.accepted = err == nil
	}
	nb := 0
	if !narrow {
		nb = verifChoice("nbefore", len(calls)+1)
	}
	for i := 0; i < nb; i++ {
		submit(&calls[i])
	}
	_, connErr = cli.Connect(ctx, "cid", WithCleanSession(false))
	verifEvent("app:connected")
	for i := nb; i < len(calls); i++ {
		if verifChoice("pause", 2) == 1 {
			verifPause()
		}
		if withPub && i == nb {
			_ = cli.Publish(ctx, &Message{Topic: "t", QoS: QoS1, Payload: []byte{200}})
		}
		submit(&calls[i])
	}
	if verifParam("latecut", 1) == 1 {
		// once everything has settled the broker may close the connection on its own (and lose the session)
		verifPause()
		if verifChoice("latecut", 2) == 1 {
			b.cutIdle()
		}
	}
}
