package mqtt

// C11 (c): unsolicited packets before the connection ends.  After at least one completed Ping the
// peer sends k surplus PINGRESP packets (and, optionally, acknowledgements nobody waits for) while a
// call is blocked; then the connection ends.  The blocked call returns, Done() is closed and the
// reader goroutine exits -- the reader never parks on a packet nobody is waiting for.

import "context"

func VerifH_C11_Unsolicited() {
	conn := newVconn("c0")
	cli := &BaseClient{Transport: conn}
	verifSetRand(100) // packet identifiers start at 100: the stray acknowledgements below match no request
	first := true
	pings := 0
	conn.onWrite = func(c *vconn, p []byte) error {
		var resp []byte
		if first {
			first = false
			resp = []byte{0x20, 2, 0, 0}
		} else if d := refDecode(p); d.ok && d.typ == 12 {
			pings++
			resp = []byte{0xD0, 0}
		}
		if resp != nil {
			c.rbuf = append(c.rbuf, resp...)
			c.nInjected += len(resp)
			c.signalLocked = true
		}
		return nil
	}
	_, cerr := cli.Connect(context.Background(), "cid")
	verifAssert(cerr == nil, "C11.harness_connect")
	npings := verifChoice("pings", 2)
	for i := 0; i < npings; i++ {
		verifAssert(cli.Ping(context.Background()) == nil, "C11.harness_ping")
	}
	surplus := verifChoice("surplus", 4)
	stray := verifChoice("strayacks", 2) == 1
	cause := verifChoice("cause", 3) // 0 peer close, 1 local Close, 2 malformed packet
	returned := false
	var err1 error
	go func() {
		verifPause() // the call below is blocked
		for i := 0; i < surplus; i++ {
			conn.inject([]byte{0xD0, 0})
			if verifChoice("settle", 2) == 1 {
				verifPause()
			}
		}
		if stray {
			// acknowledgements for identifiers nobody waits for
			conn.inject([]byte{0x40, 2, 0x7f, 0x01, 0x50, 2, 0x7f, 0x02, 0x70, 2, 0x7f, 0x03, 0xB0, 2, 0x7f, 0x04, 0x90, 3, 0x7f, 0x05, 0})
			verifPause()
		}
		switch cause {
		case 0:
			verifEvent("cause:peerclose")
			conn.peerClose()
		case 1:
			verifEvent("cause:close")
			cli.Close()
		case 2:
			verifEvent("cause:malformed")
			conn.inject([]byte{0xF0, 0})
		}
	}()
	verifOnQuiescence(func() {
		verifReach("ended")
		verifAssert(returned, "C11.call_returns")
		if returned {
			verifAssert(err1 != nil, "C11.interrupted_call_reports_error")
		}
		closed := false
		select {
		case <-cli.Done():
			closed = true
		default:
		}
		verifAssert(closed, "C11.done_closed_when_connection_ends")
		verifAssert(verifLive() == 0, "C11.reader_exits_when_connection_ends")
	})
	_, err1 = cli.Subscribe(context.Background(), Subscription{Topic: "a", QoS: QoS1})
	returned = true
	verifEvent("returned")
}
