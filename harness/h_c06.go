package mqtt

// C06: arbitrary broker bytes never crash the client; malformed input ends the link.
// An uncaught panic anywhere is reported by the executor itself (assert id "panic").

import (
	"context"
	"io"
)

func verifHasZero(b []byte) bool {
	z := false
	for _, c := range b {
		z = verifOr(z, c == 0)
	}
	return z
}

// (a) every packet parser on a symbolic flag nibble and 0..N symbolic content bytes.
func VerifH_C06_Parsers() {
	flag := verifNondetU8("flag")
	verifAssume(flag <= 0x0F)
	n := verifChoice("len", verifParam("maxlen", 4)+1)
	contents := verifBytes("c", n)
	short := n < 2
	switch verifChoice("parser", 9) {
	case 0:
		_, err := (&pktConnAck{}).Parse(flag, contents)
		verifAssert(verifImplies(verifOr(flag != 0, short), err != nil), "C06.connack_malformed_is_error")
	case 1:
		_, err := (&pktPubAck{}).Parse(flag, contents)
		verifAssert(verifImplies(verifOr(flag != 0, short), err != nil), "C06.puback_malformed_is_error")
	case 2:
		_, err := (&pktPubRec{}).Parse(flag, contents)
		verifAssert(verifImplies(verifOr(flag != 0, short), err != nil), "C06.pubrec_malformed_is_error")
	case 3:
		_, err := (&pktPubRel{}).Parse(flag, contents)
		verifAssert(verifImplies(verifOr(flag != 2, short), err != nil), "C06.pubrel_malformed_is_error")
	case 4:
		_, err := (&pktPubComp{}).Parse(flag, contents)
		verifAssert(verifImplies(verifOr(flag != 0, short), err != nil), "C06.pubcomp_malformed_is_error")
	case 5:
		_, err := (&pktSubAck{}).Parse(flag, contents)
		verifAssert(verifImplies(verifOr(flag != 0, short), err != nil), "C06.suback_malformed_is_error")
	case 6:
		_, err := (&pktUnsubAck{}).Parse(flag, contents)
		verifAssert(verifImplies(verifOr(flag != 0, short), err != nil), "C06.unsuback_malformed_is_error")
	case 7:
		_, err := (&pktPingResp{}).Parse(flag, contents)
		verifAssert(verifImplies(flag != 0, err != nil), "C06.pingresp_malformed_is_error")
	case 8:
		p, err := (&pktPublish{}).Parse(flag, contents)
		qos := (flag >> 1) & 3
		verifAssert(verifImplies(qos == 3, err != nil), "C06.publish_qos3_is_error")
		// body shorter than its fixed fields: topic length prefix, topic, packet id
		if n < 2 {
			verifAssert(err != nil, "C06.publish_short_is_error")
		} else {
			tl := int(contents[0])<<8 | int(contents[1])
			need := 2 + tl
			if qos != 0 {
				need += 2
			}
			verifAssert(verifImplies(need > n, err != nil), "C06.publish_short_is_error")
			if tl+2 <= n {
				verifAssert(verifImplies(verifHasZero(contents[2:2+tl]), err != nil), "C06.publish_nul_in_topic_is_error")
			}
		}
		if err == nil {
			verifReach("publish-parsed")
			verifAssert(p != nil && p.Message != nil, "C06.publish_result")
		}
	}
	verifReach("parsed")
}

// (b) readPacket on an arbitrary stream.
func VerifH_C06_ReadPacket() {
	verifExpectMake("readPacket", 268435455)
	n := verifChoice("streamlen", verifParam("maxstream", 8)+1)
	stream := verifBytes("s", n)
	_, _, contents, err := readPacket(&sliceReader{b: stream})
	verifReach("returned")
	// a length field of more than four bytes is an error
	if n >= 5 {
		long := verifAnd(verifAnd(stream[1]&0x80 != 0, stream[2]&0x80 != 0), verifAnd(stream[3]&0x80 != 0, stream[4]&0x80 != 0))
		verifAssert(verifImplies(long, err != nil), "C06.overlong_length_is_error")
	}
	if err == nil {
		verifAssert(len(contents) <= 268435455, "C06.alloc_bound_result")
	}
}

// refBrokerMalformed: does the single packet (hdr, body) belong to one of the
// malformed classes named by the property?  (Symbolic boolean.)
func refBrokerMalformed(hdr byte, body []byte) bool {
	typ := hdr >> 4
	fl := hdr & 0x0F
	n := len(body)
	short2 := n < 2
	bad := verifOr(typ == 0, typ == 15) // unknown packet types
	bad = verifOr(bad, verifAnd(typ == 2, verifOr(fl != 0, short2)))
	ackish := verifOr(verifOr(typ == 4, typ == 5), verifOr(verifOr(typ == 7, typ == 9), typ == 11))
	bad = verifOr(bad, verifAnd(ackish, verifOr(fl != 0, short2)))
	bad = verifOr(bad, verifAnd(typ == 6, verifOr(fl != 2, short2)))
	bad = verifOr(bad, verifAnd(typ == 13, fl != 0))
	// PUBLISH
	qos := (fl >> 1) & 3
	pbad := qos == 3
	if n < 2 {
		pbad = true
	} else {
		tl := int(body[0])<<8 | int(body[1])
		need := 2 + tl
		pbad = verifOr(pbad, verifOr(verifAnd(qos != 0, need+2 > n), need > n))
		for k := 0; k+2 < n; k++ {
			pbad = verifOr(pbad, verifAnd(k < tl, body[2+k] == 0))
		}
	}
	bad = verifOr(bad, verifAnd(typ == 3, pbad))
	return bad
}

// (c) serve() on [well-formed PUBLISH] ‖ [one arbitrary packet] ‖ [well-formed PUBLISH] ‖ EOF.
func VerifH_C06_Serve() {
	conn := newVconn("c0")
	cli := &BaseClient{Transport: conn}
	cli.init()
	var got []byte
	cli.Handle(HandlerFunc(func(m *Message) {
		if len(m.Payload) == 1 {
			got = append(got, m.Payload[0])
		}
	}))
	hdr := verifNondetU8("hdr")
	n := verifChoice("bodylen", verifParam("maxbody", 3)+1)
	body := verifBytes("x", n)
	var stream []byte
	stream = append(stream, refEncodePublish([]byte("t"), 0, 0, false, false, []byte{1})...)
	stream = append(stream, hdr, byte(n))
	stream = append(stream, body...)
	stream = append(stream, refEncodePublish([]byte("t"), 0, 0, false, false, []byte{2})...)
	conn.inject(stream)
	conn.peerClose()
	err := cli.serve()
	verifReach("served")
	verifAssert(err != nil, "C06.serve_returns_error")
	verifAssert(len(got) >= 1 && got[0] == 1, "C06.preceding_packet_processed")
	bad := refBrokerMalformed(hdr, body)
	second := len(got) >= 2
	verifAssert(verifImplies(bad, !second), "C06.malformed_ends_link")
	verifAssert(verifImplies(bad, err != io.EOF), "C06.malformed_error_reported")
}

// (d) end to end: CONNACK, a well-formed PUBLISH, then a malformed packet on a
// connection that stays open: Err() non-nil, Done() closed, callback Closed with that error.
func VerifH_C06_Connect() {
	conn := newVconn("c0")
	cli := &BaseClient{Transport: conn}
	var states []ConnState
	var errs []error
	cli.ConnState = func(s ConnState, err error) {
		verifLock()
		states = append(states, s)
		errs = append(errs, err)
		verifUnlock()
	}
	nmsg := 0
	cli.Handle(HandlerFunc(func(m *Message) { verifLock(); nmsg++; verifUnlock() }))
	var bad []byte
	switch verifChoice("class", 8) {
	case 0: // illegal flags on PUBACK
		bad = []byte{0x40 | (verifNondetU8("fl")&0x0E | 1), 2, 0, 1}
	case 1: // QoS 3
		bad = []byte{0x36, 3, 0, 1, 'a'}
	case 2: // unknown packet type
		bad = []byte{0xF0, 0}
	case 3: // body shorter than fixed fields
		bad = []byte{0xB0, 1, 0}
	case 4: // U+0000 in topic
		bad = []byte{0x30, 3, 0, 1, 0}
	case 5: // SUBACK without packet id
		bad = []byte{0x90, verifNondetU8("n") & 1, 0}
	case 6: // over-long length field
		bad = []byte{0x30, 0x80, 0x80, 0x80, 0x80, 0x01}
	case 7: // reserved type 0
		bad = []byte{0x00, 0}
	}
	resp := []byte{0x20, 2, 0, 0}
	if verifChoice("moreconnacks", 2) == 1 {
		// well-formed but unsolicited: repeated CONNACKs must neither wedge the reader nor hide what follows
		resp = append(resp, 0x20, 2, 0, 0, 0x20, 2, 0, 0)
	}
	resp = append(resp, refEncodePublish([]byte("t"), 0, 0, false, false, []byte{1})...)
	resp = append(resp, bad...)
	conn.answerConnect(resp)
	done := false
	verifOnQuiescence(func() {
		verifAssert(done, "C06.done_closed_after_malformed")
	})
	_, _ = cli.Connect(context.Background(), "cid")
	<-cli.Done()
	done = true
	verifReach("done")
	verifAssert(cli.Err() != nil, "C06.err_reported")
	verifLock()
	nClosed := 0
	for i, s := range states {
		if s == StateClosed {
			nClosed++
			verifAssert(errs[i] != nil && errs[i] == cli.Err(), "C06.closed_callback_error")
		}
	}
	verifAssert(nClosed == 1, "C06.closed_callback_once")
	verifAssert(nmsg == 1, "C06.preceding_publish_delivered")
	verifUnlock()
}
