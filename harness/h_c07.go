package mqtt

// C07: a request completes only on the acknowledgement that belongs to it.
// Up to two concurrent callers on a connected base client; a broker-script thread sends
// acknowledgements whose kind is a choice and whose identifier is symbolic, so "the right
// one", "right id wrong kind", "foreign id" and "unsolicited" are all instances.

import (
	"context"
	"errors"
)

type c07Ack struct {
	typ byte // 4 PUBACK 5 PUBREC 7 PUBCOMP 9 SUBACK 11 UNSUBACK
	id  uint16
	seq int // position in the global order of writes / sends
}

type c07Req struct {
	kind     int // c11Pub1 c11Pub2 c11Sub c11Unsub
	id       uint16
	haveID   bool
	wseq     []int // global sequence numbers of this request's written packets (PUBLISH, PUBREL)
	returned bool
	err      error
	subs     []Subscription
	nfilters int
}

func VerifH_C07_Acks() {
	conn := newVconn("c0")
	cli := &BaseClient{Transport: conn}
	verifSetRand(100)
	nreq := verifChoice("callers", verifParam("callers", 2)) + 1
	reqs := make([]*c07Req, nreq)
	for i := range reqs {
		reqs[i] = &c07Req{kind: c11Pub1 + verifChoice("kind", 4)}
		if reqs[i].kind == c11Sub {
			reqs[i].nfilters = verifChoice("nfilters", 2) + 1
		}
	}
	seq := 0
	var sent []c07Ack
	first := true
	conn.onWrite = func(c *vconn, p []byte) error {
		if first {
			first = false
			c.rbuf = append(c.rbuf, 0x20, 2, 0, 0)
			c.nInjected += 4
			c.signalLocked = true
			return nil
		}
		d := refDecode(p)
		seq++
		// attribute the packet to its request: every request uses its own topic / first filter ('0'+index);
		// a PUBREL carries only the identifier of its PUBLISH
		for i, r := range reqs {
			mark := byte('0' + i)
			match := false
			switch d.typ {
			case 3:
				match = (r.kind == c11Pub1 || r.kind == c11Pub2) && len(d.topic) == 2 && d.topic[1] == mark
			case 6:
				match = r.kind == c11Pub2 && r.haveID && r.id == d.id
			case 8, 10:
				match = (r.kind == c11Sub || r.kind == c11Unsub) && len(d.filters) > 0 && len(d.filters[0]) == 2 && d.filters[0][1] == mark
			}
			if match {
				r.id, r.haveID = d.id, true
				r.wseq = append(r.wseq, seq)
				break
			}
		}
		return nil
	}
	_, cerr := cli.Connect(context.Background(), "cid")
	verifAssert(cerr == nil, "C07.harness_connect")

	// has the script sent, after position `after`, an acknowledgement of this type with this id?
	sentAfter := func(typ byte, id uint16, after int) (bool, int) {
		found := false
		at := 0
		for _, a := range sent {
			hit := verifAnd(a.typ == typ, verifAnd(a.id == id, a.seq > after))
			if verifSymbolic() {
				// keep it a boolean term: the identifier comparison is decided by the solver in the assertion
				found = verifOr(found, hit)
			} else if hit {
				found = true
			}
			if !verifSymbolic() && hit && at == 0 {
				at = a.seq
			}
		}
		return found, at
	}
	ctx, cancelAll := context.WithCancel(context.Background())
	if verifChoice("cancel", 2) == 1 {
		// the callers' context ends at some idle moment (e.g. between PUBREC and PUBCOMP)
		go func() {
			verifPause()
			verifEvent("cancel")
			cancelAll()
		}()
	}
	for i := range reqs {
		r := reqs[i]
		mark := string([]byte{byte('0' + i)})
		go func() {
			switch r.kind {
			case c11Pub1:
				r.err = cli.Publish(ctx, &Message{Topic: "t" + mark, QoS: QoS1, Payload: []byte{1}})
			case c11Pub2:
				r.err = cli.Publish(ctx, &Message{Topic: "t" + mark, QoS: QoS2, Payload: []byte{2}})
			case c11Sub:
				subs := []Subscription{{Topic: "a" + mark, QoS: QoS2}}
				if r.nfilters == 2 {
					subs = append(subs, Subscription{Topic: "b", QoS: QoS1})
				}
				r.subs, r.err = cli.Subscribe(ctx, subs...)
			case c11Unsub:
				r.err = cli.Unsubscribe(ctx, "a"+mark)
			}
			r.returned = true
			verifEvent("returned(" + itoa(r.kind) + ")")
			if r.err != nil {
				return
			}
			// safety: success only after the acknowledgement(s) of the right kind with this request's id were sent
			verifLock()
			first := 0
			if len(r.wseq) > 0 {
				first = r.wseq[0] // an acknowledgement sent before the request was written is unsolicited: it completes nothing
			}
			rel := first
			if len(r.wseq) > 1 {
				rel = r.wseq[1]
			}
			if verifParam("preempt", 0) == 1 {
				// Under preemptive schedules (delay bound >= 1) the waiter, which the client registers just before
				// writing the packet, may legitimately receive an acknowledgement that arrives inside that window;
				// "sent after the packet was written" is demanded only of the non-preemptive runs.
				first, rel = 0, 0
			}
			switch r.kind {
			case c11Pub1:
				ok, _ := sentAfter(4, r.id, first)
				verifAssert(ok, "C07.puback_own_id_before_success")
			case c11Pub2:
				ok1, _ := sentAfter(5, r.id, first)
				ok2, _ := sentAfter(7, r.id, rel) // the PUBCOMP that answers this request's PUBREL
				verifAssert(verifAnd(ok1, ok2), "C07.pubrec_and_pubcomp_own_id_before_success")
			case c11Sub:
				ok, _ := sentAfter(9, r.id, first)
				verifAssert(ok, "C07.suback_own_id_before_success")
			case c11Unsub:
				ok, _ := sentAfter(11, r.id, first)
				verifAssert(ok, "C07.unsuback_own_id_before_success")
			}
			verifUnlock()
		}()
	}
	var codes [][]byte
	// broker script
	go func() {
		nacks := verifChoice("nacks", verifParam("acks", 3)+1)
		for k := 0; k < nacks; k++ {
			if verifChoice("wait", 2) == 1 {
				verifPause()
			}
			typ := []byte{4, 5, 7, 9, 11}[verifChoice("acktype", 5)]
			id := verifNondetU16("ackid")
			var pkt []byte
			switch typ {
			case 4:
				pkt = refEncodeAck(0x40, id)
			case 5:
				pkt = refEncodeAck(0x50, id)
			case 7:
				pkt = refEncodeAck(0x70, id)
			case 11:
				pkt = refEncodeAck(0xB0, id)
			case 9:
				nc := verifChoice("ncodes", 3)
				cs := verifBytes("code", nc)
				pkt = append([]byte{0x90, byte(2 + nc), byte(id >> 8), byte(id)}, cs...)
				verifLock()
				codes = append(codes, cs)
				verifUnlock()
			}
			verifLock()
			seq++
			sent = append(sent, c07Ack{typ: typ, id: id, seq: seq})
			verifUnlock()
			verifEvent("ack(" + pktName(typ) + ")")
			conn.inject(pkt)
		}
	}()
	verifOnQuiescence(func() {
		verifReach("end")
		verifLock()
		defer verifUnlock()
		// ids of simultaneously outstanding requests differ
		for i := range reqs {
			for j := i + 1; j < len(reqs); j++ {
				if reqs[i].haveID && reqs[j].haveID {
					verifAssert(reqs[i].id != reqs[j].id, "C07.outstanding_ids_differ")
				}
			}
		}
		for _, r := range reqs {
			if r.returned {
				if r.err == nil {
					verifReach("completed")
				}
				if r.kind == c11Sub && r.err != nil {
					verifReach("sub-error")
				}
				continue
			}
			// liveness: still blocked although every acknowledgement it needs was sent after the packet it answers
			if !r.haveID {
				continue
			}
			switch r.kind {
			case c11Pub1:
				ok, _ := sentAfter(4, r.id, r.wseq[0])
				verifAssert(!ok, "C07.not_disturbed_by_other_acks")
			case c11Sub:
				ok, _ := sentAfter(9, r.id, r.wseq[0])
				verifAssert(!ok, "C07.not_disturbed_by_other_acks")
			case c11Unsub:
				ok, _ := sentAfter(11, r.id, r.wseq[0])
				verifAssert(!ok, "C07.not_disturbed_by_other_acks")
			case c11Pub2:
				if len(r.wseq) >= 2 {
					ok, _ := sentAfter(7, r.id, r.wseq[1])
					verifAssert(!ok, "C07.not_disturbed_by_other_acks")
				} else {
					ok, _ := sentAfter(5, r.id, r.wseq[0])
					verifAssert(!ok, "C07.not_disturbed_by_other_acks")
				}
			}
		}
		_ = errors.Is
		cancelAll()
	})
}

// A broker that answers every request at once: the acknowledgement is already readable before the
// client's Transport.Write returns, and the reader goroutine may process it first.  Every caller
// must still complete.
func VerifH_C07_Prompt() {
	conn := newVconn("c0")
	conn.yieldAfterWrite = true
	cli := &BaseClient{Transport: conn}
	verifSetRand(100)
	first := true
	conn.onWrite = func(c *vconn, p []byte) error {
		var resp []byte
		if first {
			first = false
			resp = []byte{0x20, 2, 0, 0}
		} else if d := refDecode(p); d.ok {
			switch d.typ {
			case 3:
				if (d.flags>>1)&3 == 1 {
					resp = refEncodeAck(0x40, d.id)
				} else if (d.flags>>1)&3 == 2 {
					resp = refEncodeAck(0x50, d.id)
				}
			case 6:
				resp = refEncodeAck(0x70, d.id)
			case 8:
				resp = []byte{0x90, byte(2 + len(d.filters)), byte(d.id >> 8), byte(d.id)}
				resp = append(resp, d.qoss...)
			case 10:
				resp = refEncodeAck(0xB0, d.id)
			case 12:
				resp = []byte{0xD0, 0}
			}
		}
		if resp != nil {
			c.rbuf = append(c.rbuf, resp...)
			c.nInjected += len(resp)
			c.signalLocked = true
		}
		return nil
	}
	_, cerr := cli.Connect(context.Background(), "cid")
	verifAssert(cerr == nil, "C07.harness_connect")
	n := verifChoice("callers", 2) + 1
	returned := make([]bool, n)
	errs := make([]error, n)
	kinds := make([]int, n)
	for i := 0; i < n; i++ {
		i := i
		kinds[i] = verifChoice("kind", 4) // Publish q1, Publish q2, Subscribe, Unsubscribe (Ping is not part of the statement: it has a single waiter slot)
		go func() {
			ctx := context.Background()
			switch kinds[i] {
			case 0:
				errs[i] = cli.Publish(ctx, &Message{Topic: "t", QoS: QoS1, Payload: []byte{1}})
			case 1:
				errs[i] = cli.Publish(ctx, &Message{Topic: "t", QoS: QoS2, Payload: []byte{2}})
			case 2:
				// each caller asks for its own filters and QoS; the prompt broker grants what was requested
				want := []Subscription{{Topic: "a", QoS: QoS1}}
				if i == 1 {
					want = []Subscription{{Topic: "b", QoS: QoS2}, {Topic: "c", QoS: QoS0}}
				}
				var got []Subscription
				got, errs[i] = cli.Subscribe(ctx, want...)
				if errs[i] == nil {
					verifAssert(len(got) == len(want), "C07.suback_result_length")
					for k := 0; k < len(got) && k < len(want); k++ {
						verifAssert(got[k].Topic == want[k].Topic && got[k].QoS == want[k].QoS, "C07.suback_granted_qos_is_its_own")
					}
				}
			case 3:
				errs[i] = cli.Unsubscribe(ctx, "a")
			case 4:
				errs[i] = cli.Ping(ctx)
			}
			returned[i] = true
		}()
	}
	verifOnQuiescence(func() {
		verifReach("end")
		for i := 0; i < n; i++ {
			verifAssert(returned[i], "C07.completes_when_ack_precedes_write_return")
			if returned[i] {
				verifAssert(errs[i] == nil, "C07.prompt_ack_is_success")
			}
		}
		cli.Close()
	})
}

// Subscribe returns the granted QoS per filter in request order, ErrInvalidSubAck when the count differs.
func VerifH_C07_SubAck() {
	conn := newVconn("c0")
	cli := &BaseClient{Transport: conn}
	verifSetRand(100)
	nf := verifChoice("nfilters", 3) + 1
	nc := verifChoice("ncodes", 4)
	codes := verifBytes("code", nc)
	first := true
	conn.onWrite = func(c *vconn, p []byte) error {
		var resp []byte
		if first {
			first = false
			resp = []byte{0x20, 2, 0, 0}
		} else if d := refDecode(p); d.ok && d.typ == 8 {
			resp = append([]byte{0x90, byte(2 + nc), byte(d.id >> 8), byte(d.id)}, codes...)
		}
		if resp != nil {
			c.rbuf = append(c.rbuf, resp...)
			c.nInjected += len(resp)
			c.signalLocked = true
		}
		return nil
	}
	_, cerr := cli.Connect(context.Background(), "cid")
	verifAssert(cerr == nil, "C07.harness_connect")
	var subs []Subscription
	for i := 0; i < nf; i++ {
		subs = append(subs, Subscription{Topic: string([]byte{byte('a' + i)}), QoS: QoS(i % 3)})
	}
	got, err := cli.Subscribe(context.Background(), subs...)
	verifReach("subscribed")
	if nc != nf {
		verifAssert(errors.Is(err, ErrInvalidSubAck), "C07.suback_count_mismatch_is_error")
		return
	}
	verifAssert(err == nil, "C07.suback_accepted")
	verifAssert(len(got) == nf, "C07.suback_result_length")
	for i := 0; i < nf && i < len(got); i++ {
		verifAssert(got[i].Topic == string([]byte{byte('a' + i)}), "C07.suback_filter_order")
		verifAssert(byte(got[i].QoS) == codes[i], "C07.suback_granted_qos_in_order")
	}
	cli.Close()
}
