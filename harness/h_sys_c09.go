package mqtt

// C09: reconnect lifecycle — redial after loss with back-off, one live transport,
// every connection starts with the same CONNECT, stop on Disconnect / cancellation.

import (
	"context"
	"errors"
	"time"
)

func VerifH_SYS_C09() {
	budget := verifParam("faults", 2)
	b := &vbroker{budget: budget, allowConnect: true, allowDialErr: true, allowGarbage: true, stamp: true}
	b.allowWriteErr = true
	b.gateDial = verifParam("gatedial", 0) == 1
	b.maxDials = 2*budget + 3
	verifSetRand(100)
	base := verifNondetDur("base")
	max := verifNondetDur("max")
	if verifParam("concrete", 0) == 1 {
		base, max = time.Second, 4*time.Second
	} else if verifSymbolic() {
		verifAssume(verifAnd(verifAnd(base >= 0, base <= 1<<40), verifAnd(max >= 0, max <= 1<<40)))
	} else {
		base, max = 50*time.Millisecond, 200*time.Millisecond
	}
	unit := time.Second
	if !verifSymbolic() {
		unit = 10 * time.Millisecond
	}
	cli, err := NewReconnectClient(b, WithReconnectWait(base, max), WithTimeout(10*unit))
	verifAssert(err == nil, "SYS.new_client")
	stopKind := 0
	if verifParam("nostop", 0) == 0 {
		stopKind = verifChoice("stop", 4) // 0 none, 1 Disconnect, 2 cancel the first context, 3 cancel, then Disconnect
	}
	stopAny := verifParam("stopany", 0) == 1
	ctx, cancel := context.WithCancel(context.Background())
	defer cancel()
	stopped := false
	stopCalled := false
	dialsAtStop := -1
	dialsAtReturn := -1
	if stopKind != 0 {
		go func() {
			if stopAny {
				verifPauseAny() // at any scheduling point (one delay), e.g. exactly while the connection is being established
			} else {
				verifPause()
			}
			stopCalled = true
			verifLock()
			dialsAtStop = b.dialStarts
			verifUnlock()
			verifEvent("app:stop")
			switch stopKind {
			case 1:
				_ = cli.Disconnect(context.Background())
				verifLock()
				dialsAtReturn = b.dialStarts
				verifUnlock()
			case 2:
				cancel()
			case 3:
				cancel()
				verifPause()
				verifEvent("app:disconnect-after-cancel")
				_ = cli.Disconnect(context.Background())
			}
			stopped = true
			verifEvent("app:stopped")
		}()
	}
	connected := false
	connectReturned := false
	var connErr error
	verifOnQuiescence(func() {
		verifReach("quiescent")
		verifLock()
		defer verifUnlock()
		if stopCalled {
			verifAssert(stopped, "C09.disconnect_returns")
		}
		// A stop issued while the system is idle finds the loop parked: not one more dial.  A stop issued at an
		// arbitrary scheduling point may coincide with a back-off timer that has already fired: the iteration
		// under way may still dial once (it was decided before the stop), nothing after that, and nothing at
		// all once Disconnect has returned.
		slack := 0
		if stopAny {
			slack = 1
		}
		if stopKind == 1 && stopped {
			verifAssert(b.dialStarts <= dialsAtStop+slack, "C09.no_dial_after_disconnect")
			verifAssert(b.dialStarts == dialsAtReturn, "C09.no_dial_after_disconnect_returned")
		}
		if stopKind >= 2 && stopped {
			verifAssert(connectReturned, "C09.connect_returns_after_cancel")
			if connectReturned && connErr != nil {
				verifAssert(errors.Is(connErr, context.Canceled), "C09.cancelled_connect_reports_context_error")
			}
		}
		if stopKind >= 2 && stopped && !connected {
			// cancelled before the first connection succeeded: never dials again
			verifAssert(b.dialStarts <= dialsAtStop+slack, "C09.no_dial_after_cancel_before_first_connection")
		}
		// every connection begins with exactly one CONNECT carrying the same id and options
		for ci := range b.conns {
			first := true
			nconn := 0
			for _, at := range b.attempts {
				if at.conn != ci {
					continue
				}
				if first {
					verifAssert(at.p.typ == 1, "C09.first_packet_is_connect")
					first = false
				}
				if at.p.typ == 1 {
					nconn++
				}
			}
			verifAssert(nconn <= 1, "C09.one_connect_per_connection")
		}
		for i := 1; i < len(b.connects); i++ {
			a, c := b.connects[0], b.connects[i]
			same := verifBytesEq(a.clientID, c.clientID) && a.cflags == c.cflags && a.keepAlive == c.keepAlive && a.level == c.level &&
				verifBytesEq(a.user, c.user) && verifBytesEq(a.pass, c.pass)
			verifAssert(same, "C09.same_connect_options")
		}
		// back-off: dial k+1 is at least min(base*2^j, max) after attempt k ended
		j := 0
		ci := 0
		for k := 0; k+1 < len(b.dialTimes); k++ {
			var end int64
			success := false
			if b.dialOK[k] {
				c := b.conns[ci]
				success = b.accepted[ci]
				end = c.closedAt
				if !c.closed {
					end = b.dialTimes[k]
				}
				ci++
			} else {
				end = b.dialTimes[k]
			}
			if success {
				j = 0
			}
			want := base << uint(j)
			if want > max {
				want = max
			}
			verifReach("redial")
			verifAssert(b.dialTimes[k+1]-end >= int64(want), "C09.backoff_lower_bound")
			j++
		}
		// if nothing stopped it and faults are spent, a connection is established
		if stopKind == 0 {
			verifAssert(len(b.conns) > 0 && b.accepted[len(b.conns)-1] && !b.conns[len(b.conns)-1].closed, "C09.reconnected_until_established")
		}
	})
	_, connErr = cli.Connect(ctx, "cid", WithCleanSession(false), WithKeepAlive(0), WithUserNamePassword("u", "p"))
	connected = connErr == nil
	connectReturned = true
	verifEvent("app:connect-returned")
	if connErr == nil {
		_ = cli.Publish(context.Background(), &Message{Topic: "t", QoS: QoS1, Payload: []byte{1}})
		if verifParam("latecut", 0) == 1 {
			// the peer closes the established connection once everything is idle
			verifPause()
			b.cutIdle()
		}
	}
}
