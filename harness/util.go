package mqtt

import "context"

func contextCancelled() (context.Context, context.CancelFunc) {
	ctx, cancel := context.WithCancel(context.Background())
	cancel()
	return ctx, cancel
}
