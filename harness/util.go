package mqtt

import (
	"context"
	"io"
)

func contextCancelled() (context.Context, context.CancelFunc) {
	ctx, cancel := context.WithCancel(context.Background())
	cancel()
	return ctx, cancel
}

func contextBackground() context.Context { return context.Background() }

type sliceReader struct {
	b []byte
	i int
}

func (r *sliceReader) Read(p []byte) (int, error) {
	if r.i >= len(r.b) {
		return 0, io.EOF
	}
	n := copy(p, r.b[r.i:])
	r.i += n
	return n, nil
}

// c07Answer: the acknowledgement a conforming broker sends for a request packet.
func c07Answer(d refPacket) []byte {
	switch d.typ {
	case 3:
		if (d.flags>>1)&3 == 1 {
			return refEncodeAck(0x40, d.id)
		} else if (d.flags>>1)&3 == 2 {
			return refEncodeAck(0x50, d.id)
		}
	case 6:
		return refEncodeAck(0x70, d.id)
	case 8:
		resp := []byte{0x90, byte(2 + len(d.filters)), byte(d.id >> 8), byte(d.id)}
		return append(resp, d.qoss...)
	case 10:
		return refEncodeAck(0xB0, d.id)
	case 12:
		return []byte{0xD0, 0}
	}
	return nil
}
