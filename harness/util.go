package mqtt

import (
	"context"
	"io"
)

func contextCancelled() (context.Context, context.CancelFunc) {
	ctx, cancel := context.WithCancel(context.Background())
	cancel()
	return ctx, cancel
}

func contextBackground() context.Context { return context.Background() }

type sliceReader struct {
	b []byte
	i int
}

func (r *sliceReader) Read(p []byte) (int, error) {
	if r.i >= len(r.b) {
		return 0, io.EOF
	}
	n := copy(p, r.b[r.i:])
	r.i += n
	return n, nil
}

