package mqtt

// C10: safe for concurrent use.  Fixed concurrent compositions, explored with the
// delay-bounded scheduler; two checks on every run:
//  (a) wire atomicity: the byte stream assembled by the transport (which itself yields
//      between two halves of every Write) is a concatenation of whole packets, each equal
//      to one that some caller produced;
//  (b) happens-before race detection over the executor's memory accesses (engine, -race).

import (
	"context"
	"time"
)

func c10CheckWire(conn *vconn, id string) {
	verifLock()
	defer verifUnlock()
	used := make([]bool, len(conn.writes))
	w := conn.wire
	for len(w) > 0 {
		_, _, n, ok := refSplit(w)
		verifAssert(ok, id+"_stream_parses")
		if !ok {
			return
		}
		pkt := w[:n]
		found := false
		for i, wr := range conn.writes {
			if !used[i] && !wr.err && verifBytesEq(wr.b, pkt) {
				used[i] = true
				found = true
				break
			}
		}
		verifAssert(found, id+"_packet_is_one_a_caller_produced")
		w = w[n:]
	}
	for i, wr := range conn.writes {
		if !wr.err {
			verifAssert(used[i], id+"_every_packet_on_the_wire")
		}
	}
}

func c10Connected(split bool) (*vconn, *BaseClient) {
	conn := newVconn("c0")
	conn.split = split
	cli := &BaseClient{Transport: conn}
	conn.answerConnect([]byte{0x20, 2, 0, 0})
	_, err := cli.Connect(context.Background(), "cid")
	verifAssert(err == nil, "C10.harness_connect")
	return conn, cli
}

// P1: Publish q0 ‖ Publish q1 ‖ inbound QoS 1 PUBLISH being acknowledged by the reader goroutine.
func VerifH_C10_Publish() {
	conn, cli := c10Connected(true)
	cli.Handle(HandlerFunc(func(m *Message) {}))
	done := make(chan struct{}, 3)
	ctx, cancel := context.WithCancel(context.Background())
	go func() {
		cli.Publish(ctx, &Message{Topic: "a", QoS: QoS0, Payload: []byte{1, 2, 3}})
		done <- struct{}{}
	}()
	big := []byte{4, 5}
	if verifParam("bigpayload", 0) == 1 {
		big = make([]byte, 20000) // larger than any internal buffer or "small packet" threshold
		big[0], big[19999] = 4, 5
	}
	go func() {
		cli.Publish(ctx, &Message{Topic: "b", QoS: QoS1, Payload: big})
		done <- struct{}{}
	}()
	conn.inject(refEncodePublish([]byte("t"), 9, 1, false, false, []byte{7}))
	// and an inbound QoS 2 flow: PUBREC and PUBCOMP are written by the reader goroutine too
	conn.inject(refEncodePublish([]byte("t"), 10, 2, false, false, []byte{8}))
	conn.inject(refEncodeAck(0x62, 10))
	verifOnQuiescence(func() {
		verifReach("end")
		cancel()
	})
	verifOnQuiescence(func() {
		c10CheckWire(conn, "C10.wire")
		verifReach("checked")
	})
	<-done
	<-done
}

// P2: Subscribe ‖ Ping ‖ Stats ‖ Handle ‖ Unsubscribe.
func VerifH_C10_Mixed() {
	conn, cli := c10Connected(true)
	ctx, cancel := context.WithCancel(context.Background())
	go func() { cli.Subscribe(ctx, Subscription{Topic: "a", QoS: QoS1}) }()
	go func() { cli.Ping(ctx) }()
	go func() { _ = cli.Stats() }()
	go func() { cli.Handle(HandlerFunc(func(m *Message) {})) }()
	if verifChoice("unsub", 2) == 1 {
		go func() { cli.Unsubscribe(ctx, "b") }()
	}
	conn.inject([]byte{0xD0, 0}) // a PINGRESP (solicited or not)
	verifOnQuiescence(func() {
		verifReach("end")
		cancel()
	})
	verifOnQuiescence(func() {
		c10CheckWire(conn, "C10.wire")
		_ = cli.Stats()
		verifReach("checked")
	})
}

// P4: requests issued before and during Connect ‖ Connect ‖ Done ‖ Err.
func VerifH_C10_Connect() {
	conn := newVconn("c0")
	conn.split = true
	cli := &BaseClient{Transport: conn}
	conn.answerConnect([]byte{0x20, 2, 0, 0})
	ctx, cancel := context.WithCancel(context.Background())
	which := verifChoice("req", 3)
	go func() {
		switch which {
		case 0:
			cli.Ping(ctx)
		case 1:
			cli.Publish(ctx, &Message{Topic: "a", QoS: QoS1, Payload: []byte{1}})
		case 2:
			cli.Subscribe(ctx, Subscription{Topic: "a"})
		}
	}()
	go func() {
		_ = cli.Err()
		_ = cli.Done()
	}()
	verifSettle()
	_, _ = cli.Connect(context.Background(), "cid")
	verifOnQuiescence(func() {
		verifReach("end")
		cancel()
		cli.Close()
	})
}

// P6: Close ‖ Publish ‖ inbound traffic.
func VerifH_C10_Close() {
	conn, cli := c10Connected(true)
	ctx := context.Background()
	go func() { cli.Publish(ctx, &Message{Topic: "a", QoS: QoS1, Payload: []byte{1}}) }()
	go func() { cli.Close() }()
	go func() { _ = cli.Err(); _ = cli.Stats() }()
	verifOnQuiescence(func() {
		verifReach("end")
		c10CheckWire(conn, "C10.wire")
	})
}

// P3/P5: the retrying / reconnecting client: Publish/Subscribe ‖ one more application goroutine that acts at any
// scheduling point (Stats/Client/Err, a direct QoS 0 publish, Handle, or Ping) ‖ reconnects caused by faults.
func VerifH_C10_Retry() {
	b := &vbroker{budget: verifParam("faults", 1)}
	b.maxDials = 6
	// sessloss=1: the broker does not keep the session, so every reconnect re-subscribes (Resubscribe is
	// called by the reconnect loop's goroutine while the task goroutine may be carrying out a Subscribe)
	b.sessionLoss = verifParam("sessloss", 0) == 1
	verifSetRand(100)
	unit := time.Second
	if !verifSymbolic() {
		unit = time.Millisecond
	}
	variant := verifParam("onlyvariant", -1) // 0 Stats/Client/Err, 1 direct QoS 0 publish, 2 Handle, 3 Ping, 4 Subscribe + Unsubscribe at any point, 5 Subscribe + Unsubscribe during a re-dial
	if variant < 0 {
		variant = verifChoice("variant", verifParam("nvariants", 4))
	}
	rc := &RetryClient{}
	rc.DirectlyPublishQoS0 = variant == 1
	cli, err := NewReconnectClient(b, WithReconnectWait(unit, 4*unit), WithTimeout(100*unit), WithRetryClient(rc))
	verifAssert(err == nil, "C10.new_client")
	ctx := context.Background()
	if variant == 5 {
		// requests submitted while a re-dial is in progress: they are carried out on the new connection,
		// by the task goroutine, while the reconnect loop's goroutine re-subscribes and retries
		b.onRedial = func() {
			cli.Subscribe(ctx, Subscription{Topic: "sb", QoS: QoS1})
			cli.Unsubscribe(ctx, "sa")
		}
	}
	go func() {
		cli.Publish(ctx, &Message{Topic: "a", QoS: QoS1, Payload: []byte{1}})
		cli.Subscribe(ctx, Subscription{Topic: "sa", QoS: QoS1})
	}()
	go func() {
		if variant == 0 {
			_ = cli.Stats()
			if c := cli.Client(); c != nil {
				_ = c.Err()
			}
			if !verifSymbolic() {
				// native replay: poll while the scenario runs so that the race detector sees both accesses
				for t0 := time.Now(); time.Since(t0) < 60*time.Millisecond; {
					_ = cli.Stats()
					verifYield()
				}
			}
		}
		verifPauseAny() // resumed at any scheduling point of the other threads (one delay) or when idle
		switch variant {
		case 0:
			_ = cli.Stats()
			if c := cli.Client(); c != nil {
				_ = c.Err()
				_ = c.Stats()
			}
		case 1:
			if cli.Client() != nil {
				cli.Publish(ctx, &Message{Topic: "q0", QoS: QoS0, Payload: []byte{9}})
			}
		case 2:
			cli.Handle(HandlerFunc(func(m *Message) {}))
		case 3:
			if cli.Client() != nil {
				pctx, cancel := context.WithCancel(ctx)
				go func() { verifPause(); cancel() }()
				cli.Ping(pctx)
			}
		case 4:
			cli.Subscribe(ctx, Subscription{Topic: "sb", QoS: QoS1})
			cli.Unsubscribe(ctx, "sa")
		}
	}()
	_, _ = cli.Connect(ctx, "cid", WithCleanSession(false))
	cli.Publish(ctx, &Message{Topic: "b", QoS: QoS2, Payload: []byte{2}})
	verifOnQuiescence(func() {
		verifReach("end")
		_ = cli.Stats()
	})
	if variant == 5 {
		// once everything has settled the broker closes the idle connection: nothing is pending when the
		// re-dial starts, so the requests submitted during it are carried out directly on the new connection
		verifPause()
		b.cutIdle()
	}
}

// P7: two QoS 2 publishes ‖ each other ‖ the reader goroutine routing PUBREC / PUBCOMP.  The two flows use
// different identifiers, so the only ordering between one caller's waiter registration and the reader's
// look-up for the other flow is the signaller's own locking.
func VerifH_C10_TwoQoS2() {
	conn := newVconn("c0")
	conn.split = true
	cli := &BaseClient{Transport: conn}
	verifSetRand(100)
	first := true
	conn.onWrite = func(c *vconn, p []byte) error {
		var resp []byte
		if first {
			first = false
			resp = []byte{0x20, 2, 0, 0}
		} else if d := refDecode(p); d.ok {
			resp = c07Answer(d)
		}
		if resp != nil {
			c.rbuf = append(c.rbuf, resp...)
			c.nInjected += len(resp)
			c.signalLocked = true
		}
		return nil
	}
	_, err := cli.Connect(context.Background(), "cid")
	verifAssert(err == nil, "C10.harness_connect")
	ctx := context.Background()
	var e1, e2 error
	done := make(chan struct{}, 2)
	go func() {
		e1 = cli.Publish(ctx, &Message{Topic: "a", QoS: QoS2, Payload: []byte{1}})
		done <- struct{}{}
	}()
	go func() {
		e2 = cli.Publish(ctx, &Message{Topic: "b", QoS: QoS2, Payload: []byte{2}})
		done <- struct{}{}
	}()
	verifOnQuiescence(func() {
		verifReach("end")
		c10CheckWire(conn, "C10.wire")
	})
	<-done
	<-done
	verifAssert(e1 == nil && e2 == nil, "C10.both_flows_complete")
	cli.Close()
}

// P8: two independent clients of one process connect at the same time (e.g. both reconnecting after the
// same broker restart): whatever the library shares between client instances is safe for that.
func VerifH_C10_TwoClients() {
	mk := func(name string) (*vconn, *BaseClient) {
		conn := newVconn(name)
		conn.answerConnect([]byte{0x20, 2, 0, 0})
		return conn, &BaseClient{Transport: conn}
	}
	_, c1 := mk("c0")
	_, c2 := mk("c1")
	done := make(chan error, 2)
	go func() { _, err := c1.Connect(context.Background(), "one"); done <- err }()
	go func() { _, err := c2.Connect(context.Background(), "two"); done <- err }()
	e1, e2 := <-done, <-done
	verifAssert(e1 == nil && e2 == nil, "C10.both_clients_connect")
	verifReach("connected")
	_ = c1.Publish(context.Background(), &Message{Topic: "a", QoS: QoS0, Payload: []byte{1}})
	_ = c2.Publish(context.Background(), &Message{Topic: "b", QoS: QoS0, Payload: []byte{2}})
	c1.Close()
	c2.Close()
}
