package mqtt

// C17: the handler registered on the reconnecting client keeps receiving messages
// on every later connection.

import (
	"context"
	"time"
)

type c17Inbound struct {
	tag  int
	conn int
	end  int
	seq  int // broker sequence number when it was sent
	late bool
}

func VerifH_SYS_C17() {
	budget := verifParam("faults", 1)
	b := &vbroker{budget: budget}
	b.maxDials = 2*budget + 3
	verifSetRand(100)
	var inbound []c17Inbound
	inQoS := byte(verifChoice("inqos", 2))
	b.onAccept = func(b *vbroker, c *vconn) {
		// a message arrives right after CONNACK
		tag := 50 + c.id
		p := refEncodePublish([]byte("t"), 7, inQoS, false, false, []byte{byte(tag)})
		c.rbuf = append(c.rbuf, p...)
		c.nInjected += len(p)
		c.signalLocked = true
		inbound = append(inbound, c17Inbound{tag: tag, conn: c.id, end: c.nInjected, seq: b.seq})
		verifEvent("c" + itoa(c.id) + ":<PUBLISH(" + itoa(tag) + ")")
	}
	unit := time.Second
	if !verifSymbolic() {
		unit = 10 * time.Millisecond
	}
	cli, err := NewReconnectClient(b, WithReconnectWait(unit, 4*unit), WithTimeout(10*unit))
	verifAssert(err == nil, "SYS.new_client")
	type call struct{ h, tag int }
	var got []call
	mk := func(i int) Handler {
		return HandlerFunc(func(m *Message) {
			verifLock()
			t := -1
			if len(m.Payload) == 1 {
				t = int(m.Payload[0])
			}
			got = append(got, call{i, t})
			verifUnlock()
			verifEvent("handler" + itoa(i) + "(" + itoa(t) + ")")
		})
	}
	h1Seq, h2Seq := -1, -1
	h1Ord, h2Ord := -1, -1
	nHandle := 0
	handle := func(i int) {
		cli.Handle(mk(i))
		verifLock()
		if i == 1 {
			h1Seq, h1Ord = b.seq, nHandle
		} else {
			h2Seq, h2Ord = b.seq, nHandle
		}
		nHandle++
		verifUnlock()
		verifEvent("app:handle" + itoa(i))
	}
	var connErr error
	connectReturned := false
	// an unrelated second client of the same process (default options), never connected, with its own handler
	var cli2 ReconnectClient
	if verifParam("other", 1) == 1 && verifChoice("otherclient", 2) == 1 {
		var err2 error
		cli2, err2 = NewReconnectClient(&vbroker{}, WithReconnectWait(unit, 4*unit))
		verifAssert(err2 == nil, "SYS.new_client")
	}
	verifOnQuiescence(func() {
		verifReach("quiescent")
		// registering a handler (from wherever the application does it) and connecting complete
		verifAssert(connectReturned, "C17.registration_and_connect_complete")
		if connErr != nil {
			return
		}
		verifLock()
		defer verifUnlock()
		for _, g := range got {
			verifAssert(g.h != 9, "C17.unrelated_client_handler_not_called")
		}
		for _, in := range inbound {
			if b.conns[in.conn].nRead < in.end {
				continue // never fully read by the client
			}
			// sequence number of this connection's CONNECT
			cseq := -1
			for _, at := range b.attempts {
				if at.conn == in.conn && at.p.typ == 1 {
					cseq = at.seq
				}
			}
			// reference point: when the CONNECT of this connection went out, or (for a message sent later on a live
			// connection) when that message was sent
			ref := cseq
			if in.late {
				ref = in.seq + 1
			}
			// the handler in force: the latest one registered before the reference point; handlers registered after
			// it (while the message was under way) are acceptable too
			cur, curOrd := 0, -1
			for h := 1; h <= 2; h++ {
				sq, ord := h1Seq, h1Ord
				if h == 2 {
					sq, ord = h2Seq, h2Ord
				}
				if sq >= 0 && sq < ref && ord > curOrd {
					cur, curOrd = h, ord
				}
			}
			if cur == 0 {
				continue // nothing registered yet when this message was under way: nothing demanded
			}
			verifReach("inbound-after-handle")
			n := 0
			for _, g := range got {
				if g.tag == in.tag {
					n++
					hOrd := h1Ord
					if g.h == 2 {
						hOrd = h2Ord
					}
					if hOrd < curOrd {
						verifReach("after-replacement")
					}
					verifAssert(hOrd >= curOrd, "C17.replacement_handler_receives")
				}
			}
			verifAssert(n >= 1, "C17.message_reaches_registered_handler")
			verifAssert(n <= 1, "C17.message_handed_once")
			if curOrd > 0 {
				verifReach("after-replacement")
			}
		}
	})
	point1 := verifChoice("handle1", 4) // 0 before Connect, 1 after Connect, 2 after an idle pause, 3 from the ConnState callback when the first connection becomes Active
	point2 := verifChoice("handle2", 3+verifParam("handleany", 0)) // 0 never, 1 right after Connect, 2 after an idle pause, 3 at any scheduling point
	if point1 == 0 {
		handle(1)
	}
	if point1 == 3 {
		registered := false
		b.onState = func(ci int, s ConnState, err error) {
			if s == StateActive && !registered {
				registered = true
				handle(1)
			}
		}
	}
	_, connErr = cli.Connect(context.Background(), "cid", WithCleanSession(false))
	connectReturned = true
	verifEvent("app:connected")
	if point1 == 1 {
		handle(1)
	}
	if point2 == 1 {
		handle(2)
	}
	if cli2 != nil {
		cli2.Handle(mk(9))
		verifEvent("app:other-client-handle")
	}
	// a request, so that faults have something to hit
	_ = cli.Publish(context.Background(), &Message{Topic: "t", QoS: QoS1, Payload: []byte{1}})
	verifPause()
	if point1 == 2 {
		handle(1)
	}
	if point2 == 2 {
		handle(2)
	}
	if point2 == 3 {
		// replacement from another goroutine at any scheduling point, e.g. while a reconnection is in progress
		go func() {
			verifPauseAny()
			handle(2)
		}()
	}
	// another message on the live connection, after a possible replacement
	verifIOWrite()
	verifLock()
	if n := len(b.conns); n > 0 && b.accepted[n-1] && !b.conns[n-1].closed && !b.conns[n-1].eof {
		c := b.conns[n-1]
		tag := 80 + c.id
		p := refEncodePublish([]byte("t"), 8, 0, false, false, []byte{byte(tag)})
		c.rbuf = append(c.rbuf, p...)
		c.nInjected += len(p)
		inbound = append(inbound, c17Inbound{tag: tag, conn: c.id, end: c.nInjected, seq: b.seq, late: true})
		verifEvent("c" + itoa(c.id) + ":<PUBLISH(" + itoa(tag) + ")")
		verifUnlock()
		c.signal()
	} else {
		verifUnlock()
	}
	_ = cli.Publish(context.Background(), &Message{Topic: "t", QoS: QoS1, Payload: []byte{2}})
}
