package mqtt

// C17: the handler registered on the reconnecting client keeps receiving messages
// on every later connection.

import (
	"context"
	"time"
)

type c17Inbound struct {
	tag  int
	conn int
	end  int
}

func VerifH_SYS_C17() {
	budget := verifParam("faults", 1)
	b := &vbroker{budget: budget}
	b.maxDials = 2*budget + 3
	verifSetRand(100)
	var inbound []c17Inbound
	inQoS := byte(verifChoice("inqos", 2))
	b.onAccept = func(b *vbroker, c *vconn) {
		// a message arrives right after CONNACK
		tag := 50 + c.id
		p := refEncodePublish([]byte("t"), 7, inQoS, false, false, []byte{byte(tag)})
		c.rbuf = append(c.rbuf, p...)
		c.nInjected += len(p)
		c.signalLocked = true
		inbound = append(inbound, c17Inbound{tag: tag, conn: c.id, end: c.nInjected})
		verifEvent("c" + itoa(c.id) + ":<PUBLISH(" + itoa(tag) + ")")
	}
	unit := time.Second
	if !verifSymbolic() {
		unit = 10 * time.Millisecond
	}
	cli, err := NewReconnectClient(b, WithReconnectWait(unit, 4*unit), WithTimeout(10*unit))
	verifAssert(err == nil, "SYS.new_client")
	type call struct{ h, tag int }
	var got []call
	mk := func(i int) Handler {
		return HandlerFunc(func(m *Message) {
			verifLock()
			t := -1
			if len(m.Payload) == 1 {
				t = int(m.Payload[0])
			}
			got = append(got, call{i, t})
			verifUnlock()
			verifEvent("handler" + itoa(i) + "(" + itoa(t) + ")")
		})
	}
	h1Seq, h2Seq := -1, -1
	handle := func(i int) {
		cli.Handle(mk(i))
		verifLock()
		if i == 1 {
			h1Seq = b.seq
		} else {
			h2Seq = b.seq
		}
		verifUnlock()
		verifEvent("app:handle" + itoa(i))
	}
	var connErr error
	verifOnQuiescence(func() {
		verifReach("quiescent")
		if connErr != nil {
			return
		}
		verifLock()
		defer verifUnlock()
		for _, in := range inbound {
			if b.conns[in.conn].nRead < in.end {
				continue // never fully read by the client
			}
			// sequence number of this connection's CONNECT
			cseq := -1
			for _, at := range b.attempts {
				if at.conn == in.conn && at.p.typ == 1 {
					cseq = at.seq
				}
			}
			if h1Seq < 0 || h1Seq >= cseq {
				continue // registered after this connection's CONNECT went out: nothing demanded
			}
			verifReach("inbound-after-handle")
			n := 0
			for _, g := range got {
				if g.tag == in.tag {
					n++
				}
			}
			verifAssert(n >= 1, "C17.message_reaches_registered_handler")
			verifAssert(n <= 1, "C17.message_handed_once")
		}
		_ = h2Seq
	})
	point1 := verifChoice("handle1", 3) // 0 before Connect, 1 after Connect, 2 after an idle pause
	point2 := verifChoice("handle2", 3) // 0 never, 1 right after Connect, 2 after an idle pause
	if point1 == 0 {
		handle(1)
	}
	_, connErr = cli.Connect(context.Background(), "cid", WithCleanSession(false))
	verifEvent("app:connected")
	if point1 == 1 {
		handle(1)
	}
	if point2 == 1 {
		handle(2)
	}
	// a request, so that faults have something to hit
	_ = cli.Publish(context.Background(), &Message{Topic: "t", QoS: QoS1, Payload: []byte{1}})
	verifPause()
	if point1 == 2 {
		handle(1)
	}
	if point2 == 2 {
		handle(2)
	}
	_ = cli.Publish(context.Background(), &Message{Topic: "t", QoS: QoS1, Payload: []byte{2}})
}
