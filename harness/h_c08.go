package mqtt

// C08 (a): the bookkeeping of established subscriptions (subscriptions.applyTo /
// unsubscriptions.applyTo) against a reference fold, for every sequence of calls over
// filters whose bytes are symbolic (equalities decided by the solver).

type refSub struct {
	f   byte
	qos QoS
	on  bool
}

func VerifH_C08_ApplyTo() {
	ncalls := verifChoice("ncalls", verifParam("maxcalls", 3)) + 1
	var est subscriptions
	var ref []refSub // insertion-ordered set keyed by filter byte
	for c := 0; c < ncalls; c++ {
		isSub := verifChoice("op", 2) == 0
		nf := verifChoice("nfilters", 2) + 1
		if isSub {
			var subs []Subscription
			for i := 0; i < nf; i++ {
				f := verifNondetU8("f")
				verifAssume(verifOr(f == 'a', verifOr(f == 'b', f == 'c')))
				q := QoS(verifNondetU8("q"))
				verifAssume(q <= 2)
				subs = append(subs, Subscription{Topic: string([]byte{f}), QoS: q})
				found := false
				for j := range ref {
					if ref[j].f == f {
						ref[j].qos, ref[j].on, found = q, true, true
					}
				}
				if !found {
					ref = append(ref, refSub{f, q, true})
				}
			}
			subscriptions(subs).applyTo(&est)
		} else {
			var fs []string
			for i := 0; i < nf; i++ {
				f := verifNondetU8("f")
				verifAssume(verifOr(f == 'a', verifOr(f == 'b', f == 'c')))
				fs = append(fs, string([]byte{f}))
				for j := range ref {
					if ref[j].f == f {
						ref[j].on = false
					}
				}
			}
			unsubscriptions(fs).applyTo(&est)
		}
	}
	verifReach("applied")
	// replaying est in order (what Resubscribe does) must yield exactly the reference set:
	// the net QoS of a filter is the one of its last entry.
	for _, r := range ref {
		last := -1
		for i, e := range est {
			if e.Topic == string([]byte{r.f}) {
				last = i
			}
		}
		if r.on {
			verifAssert(last >= 0, "C08.established_contains_subscribed")
			if last >= 0 {
				verifAssert(est[last].QoS == r.qos, "C08.established_replay_yields_last_qos")
			}
		} else {
			verifAssert(last < 0, "C08.established_excludes_unsubscribed")
		}
	}
	for _, e := range est {
		known := false
		for _, r := range ref {
			if e.Topic == string([]byte{r.f}) {
				known = true
			}
		}
		verifAssert(known, "C08.established_no_foreign_entries")
	}
}
