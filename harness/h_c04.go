package mqtt

// C04: inbound QoS 0/1/2 flows.  A sequential run: the real serve() loop is fed
// k packets built by the reference encoder from symbolic fields; one timeline
// records reads (packet boundaries), handler calls and written packets.

import "context"

type c04Event struct {
	kind byte // 'R' packet k starts being read, 'H' handler call, 'W' written packet
	k    int
	typ  byte
	id   uint16
	tag  byte // payload byte identifying the message
}

type c04Conn struct {
	stream []byte
	starts []int // offset of each packet
	off    int
	log    *[]c04Event
}

func (c *c04Conn) Read(p []byte) (int, error) {
	if c.off >= len(c.stream) {
		return 0, errVconnClosed
	}
	for k, s := range c.starts {
		if s == c.off {
			*c.log = append(*c.log, c04Event{kind: 'R', k: k})
		}
	}
	// never cross a packet boundary in one Read
	end := len(c.stream)
	for _, s := range c.starts {
		if s > c.off && s < end {
			end = s
		}
	}
	n := copy(p, c.stream[c.off:end])
	c.off += n
	return n, nil
}

func (c *c04Conn) Write(p []byte) (int, error) {
	d := refDecode(p)
	verifAssert(d.ok, "C04.written_packet_wellformed")
	*c.log = append(*c.log, c04Event{kind: 'W', typ: d.typ, id: d.id})
	return len(p), nil
}

func (c *c04Conn) Close() error { return nil }

func VerifH_C04_Inbound() {
	var log []c04Event
	conn := &c04Conn{log: &log}
	cli := &BaseClient{Transport: conn}
	cli.init()
	hkind := verifChoice("handler", 4) // 0 a recording handler, 1 none, 2 a handler that also uses its client (forwards the message), 3 a handler that rewrites the message it now owns
	withHandler := hkind != 1
	nForward := 0
	if withHandler {
		cli.Handle(HandlerFunc(func(m *Message) {
			tag := byte(0)
			if len(m.Payload) == 1 {
				tag = m.Payload[0]
			}
			log = append(log, c04Event{kind: 'H', id: m.ID, tag: tag, typ: byte(m.QoS)})
			if hkind == 3 {
				// ownership was transferred: the handler may do what it likes with the message (e.g. clear the
				// identifier before re-publishing it elsewhere); the flow is completed with the identifiers of the packets
				m.ID = 0
				m.Topic = "rewritten"
				if len(m.Payload) > 0 {
					m.Payload[0] ^= 0xFF
				}
			}
			if hkind == 2 {
				nForward++
				_ = cli.Publish(context.Background(), &Message{Topic: "fwd", QoS: QoS0, Payload: []byte{tag}})
			}
		}))
	}
	served := false
	verifOnQuiescence(func() {
		// handing a message to a handler that calls back into the client does not wedge the reader
		verifAssert(served, "C04.serve_not_blocked_by_handler")
	})
	k := verifChoice("npackets", verifParam("maxpackets", 3)) + 1
	kinds := make([]int, k)
	ids := make([]uint16, k)
	for i := 0; i < k; i++ {
		kinds[i] = verifChoice("kind", 4) // 0..2 PUBLISH qos, 3 PUBREL
		ids[i] = verifNondetU16("id")
		conn.starts = append(conn.starts, len(conn.stream))
		if kinds[i] == 3 {
			conn.stream = append(conn.stream, refEncodeAck(0x62, ids[i])...)
		} else {
			dup := false
			if kinds[i] > 0 {
				dup = verifNondetBool("dup")
			}
			conn.stream = append(conn.stream, refEncodePublish([]byte("t"), ids[i], byte(kinds[i]), dup, verifNondetBool("retain"), []byte{byte(i + 1)})...)
		}
	}
	_ = cli.serve()
	served = true
	verifReach("served")

	// split the timeline per input packet
	seg := make([][]c04Event, k)
	cur := -1
	for _, e := range log {
		if e.kind == 'R' {
			cur = e.k
			continue
		}
		if e.kind == 'W' && e.typ == 3 {
			// the handler's own forwarded PUBLISH: not part of the inbound flow
			nForward--
			continue
		}
		if cur >= 0 {
			seg[cur] = append(seg[cur], e)
		}
	}
	verifAssert(nForward == 0, "C04.handler_forwarding_completes")
	// reference receiver: pending QoS 2 ids
	var pendID []uint16
	var pendOn []bool
	var pendTag []byte
	for i := 0; i < k; i++ {
		s := seg[i]
		switch kinds[i] {
		case 0:
			if withHandler {
				verifAssert(len(s) == 1 && s[0].kind == 'H' && s[0].tag == byte(i+1), "C04.qos0_handed_once")
			} else {
				verifAssert(len(s) == 0, "C04.qos0_no_handler_no_effect")
			}
		case 1:
			if withHandler {
				ok := len(s) == 2 && s[0].kind == 'H' && s[0].tag == byte(i+1) && s[1].kind == 'W' && s[1].typ == 4
				verifAssert(ok, "C04.qos1_handler_then_puback")
				if ok {
					verifAssert(s[1].id == ids[i], "C04.qos1_puback_id")
				}
			} else {
				ok := len(s) == 1 && s[0].kind == 'W' && s[0].typ == 4
				verifAssert(ok, "C04.qos1_puback")
				if ok {
					verifAssert(s[0].id == ids[i], "C04.qos1_puback_id")
				}
			}
		case 2:
			ok := len(s) == 1 && s[0].kind == 'W' && s[0].typ == 5
			verifAssert(ok, "C04.qos2_pubrec_and_no_handover_before_pubrel")
			if ok {
				verifAssert(s[0].id == ids[i], "C04.qos2_pubrec_id")
			}
			found := false
			for j := range pendID {
				if pendOn[j] && pendID[j] == ids[i] {
					found = true
				}
			}
			if !found {
				pendID = append(pendID, ids[i])
				pendOn = append(pendOn, true)
				pendTag = append(pendTag, byte(i+1))
			}
		case 3:
			known := false
			var firstTag byte
			for j := range pendID {
				if pendOn[j] && pendID[j] == ids[i] {
					known = true
					pendOn[j] = false
					firstTag = pendTag[j]
				}
			}
			_ = firstTag
			if known {
				verifReach("pubrel-known")
				if withHandler {
					ok := len(s) == 2 && s[0].kind == 'H' && s[1].kind == 'W' && s[1].typ == 7
					verifAssert(ok, "C04.pubrel_handover_once_then_pubcomp")
					if ok {
						verifAssert(s[1].id == ids[i], "C04.pubcomp_id")
						verifAssert(s[0].id == ids[i], "C04.handed_message_is_the_released_one")
						// content: the payload of one of the PUBLISH packets carrying that id (first or a DUP retransmission),
						// never the content of some other packet
						okTag := false
						for j := 0; j < i; j++ {
							if kinds[j] == 2 && s[0].tag == byte(j+1) {
								okTag = verifOr(okTag, ids[j] == ids[i])
							}
						}
						verifAssert(okTag, "C04.handed_payload_belongs_to_released_id")
					}
				} else {
					ok := len(s) == 1 && s[0].kind == 'W' && s[0].typ == 7
					verifAssert(ok, "C04.pubrel_pubcomp")
					if ok {
						verifAssert(s[0].id == ids[i], "C04.pubcomp_id")
					}
				}
			} else {
				// unknown id (never published, or already released): no hand-over; a PUBCOMP is allowed, nothing is demanded
				for _, e := range s {
					verifAssert(e.kind != 'H', "C04.repeated_or_unknown_pubrel_no_handover")
				}
			}
		}
	}
}
