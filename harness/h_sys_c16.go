package mqtt

// C13 (b) and C16 (b): the reconnecting client with keep-alive on the virtual clock.

import (
	"context"
	"errors"
	"time"
)

// checkC16Conn: per connection, the state callback log against the statement.
func checkC16Conn(b *vbroker, ci int, disconnectCalledOn int) {
	st := b.states[ci]
	nActive, nClosed, nDisc := 0, 0, 0
	discAt := -1
	for i, s := range st {
		switch s {
		case StateActive:
			nActive++
			verifAssert(b.accepted[ci], "C16.active_only_after_accepting_connack")
		case StateClosed:
			nClosed++
			verifAssert(b.stateErrs[ci][i] != nil, "C16.closed_carries_error")
			verifAssert(discAt < 0, "C16.no_closed_after_disconnected")
		case StateDisconnected:
			nDisc++
			discAt = i
		}
	}
	verifAssert(nActive <= 1, "C16.active_at_most_once")
	verifAssert(nClosed <= 1, "C16.closed_at_most_once")
	verifAssert(nDisc <= 1, "C16.disconnected_at_most_once")
	cli := b.clients[ci]
	ended := b.conns[ci].closed
	doneClosed := false
	select {
	case <-cli.Done():
		doneClosed = true
	default:
	}
	if ci == disconnectCalledOn {
		verifAssert(nDisc == 1, "C16.disconnected_reported_once")
	} else if ended && doneClosed {
		verifAssert(nClosed == 1, "C16.closed_reported_once_when_connection_ended")
		for i, s := range st {
			if s == StateClosed {
				verifAssert(b.stateErrs[ci][i] == cli.Err(), "C16.closed_error_is_err")
			}
		}
	}
	verifAssert(verifImplies(doneClosed, ended), "C16.done_only_if_ended")
}

func VerifH_SYS_C16() {
	budget := verifParam("faults", 1)
	b := &vbroker{budget: budget, stamp: true, silentConn: -1}
	b.maxDials = 2*budget + 4
	b.allowWriteErr = true // a fault may also be a failing Write (of CONNECT, PUBLISH or PINGREQ)
	verifSetRand(100)
	unit := time.Second
	if !verifSymbolic() {
		unit = 10 * time.Millisecond
	}
	interval := 2 * unit
	timeout := unit
	// C13 (b): the peer may go silent on one connection after some answered pings
	if verifChoice("silent", 2) == 1 {
		b.silentArmed = true
		b.silentConn = verifChoice("silentconn", 2)
		b.silentFrom = verifChoice("silentfrom", 2)
	}
	opts := []ReconnectOption{WithReconnectWait(unit, 4*unit), WithPingInterval(interval)}
	if verifChoice("timeoutopt", 2) == 0 {
		opts = append(opts, WithTimeout(timeout))
	} else {
		timeout = interval // documented default: the ping interval
	}
	cli, err := NewReconnectClient(b, opts...)
	verifAssert(err == nil, "SYS.new_client")
	disconnect := verifChoice("disconnect", 2) == 1
	discOn := -1
	var connErr error
	healthyErrSeen := false
	healthyAtDisconnect := false
	verifOnQuiescence(func() {
		verifReach("end")
		if connErr != nil {
			return
		}
		verifLock()
		defer verifUnlock()
		for ci := range b.conns {
			checkC16Conn(b, ci, discOn)
			// a connection that met no fault, whose peer kept answering and that was not disconnected stays in use
			faulted := false
			for _, at := range b.attempts {
				if at.conn == ci && (at.outcome == 'e' || at.outcome == 'l' || at.outcome == 'a' || at.outcome == 'd') {
					faulted = true // an injected fault (a write refused because the client itself had closed the connection is not one)
				}
			}
			if b.accepted[ci] && !faulted && b.silentAt[ci] < 0 && ci != discOn && !b.conns[ci].eof {
				verifReach("healthy-connection")
				verifAssert(!b.conns[ci].closed, "C13.healthy_connection_kept")
			}
			// the reported error is what really ended the connection: a ping timeout is reported only for a
			// connection whose peer actually stopped answering (cuts and write errors are not ping timeouts)
			if e := b.clients[ci].Err(); e != nil && errors.Is(e, ErrPingTimeout) {
				verifAssert(b.silentAt[ci] >= 0, "C16.ping_timeout_only_when_peer_silent")
			}
			// C13 (b): a connection whose peer went silent is closed and replaced within interval+timeout
			if b.silentAt[ci] >= 0 {
				verifReach("silent-peer")
				c := b.conns[ci]
				verifAssert(c.closed, "C13.silent_connection_closed")
				if c.closed {
					verifAssert(c.closedAt-b.silentAt[ci] <= int64(timeout), "C13.silent_connection_closed_within_timeout")
				}
				if !disconnect {
					verifAssert(len(b.conns) > ci+1, "C13.redial_after_ping_timeout")
				}
				// the error that ended this connection — reported by Err() and with the Closed callback — is the ping timeout
				if ci != discOn {
					verifAssert(errors.Is(b.clients[ci].Err(), ErrPingTimeout), "C16.err_is_the_cause_ping_timeout")
				}
			}
		}
		// a healthy connection keeps Err() == nil; so does a gracefully disconnected one
		last := len(b.conns) - 1
		if last >= 0 && b.accepted[last] {
			lc := b.clients[last]
			if discOn == last {
				if healthyAtDisconnect {
					verifReach("after-disconnect")
					verifAssert(lc.Err() == nil, "C16.err_nil_after_graceful_disconnect")
				}
			} else if !b.conns[last].closed {
				verifReach("healthy-last")
				verifAssert(lc.Err() == nil, "C16.err_nil_while_healthy")
			}
		}
		_ = healthyErrSeen
	})
	// the context given to Connect is either the background context or one that the application cancels as
	// soon as Connect has returned (`defer cancel()`): the established connection and its keep-alive do not depend on it
	cctx, ccancel := context.WithCancel(context.Background())
	_, connErr = cli.Connect(cctx, "cid", WithCleanSession(false))
	if verifChoice("cancelctx", 2) == 1 {
		ccancel()
		verifEvent("app:connected,ctx-cancelled")
	} else {
		verifEvent("app:connected")
	}
	_ = ccancel
	_ = cli.Publish(context.Background(), &Message{Topic: "t", QoS: QoS1, Payload: []byte{1}})
	if disconnect {
		verifPause()
		verifLock()
		discOn = len(b.conns) - 1
		if discOn >= 0 {
			c := b.conns[discOn]
			healthyAtDisconnect = b.accepted[discOn] && !c.closed && !c.eof && b.silentAt[discOn] < 0
		}
		verifUnlock()
		verifEvent("app:disconnect")
		_ = cli.Disconnect(context.Background())
		verifEvent("app:disconnected")
	}
}
