package mqtt

// U-handle / U-fail (C01, C12, C19): an interrupted QoS>=1 publish, subscribe or unsubscribe on
// the base client returns an ErrorWithRetry whose Retry re-issues that same request on the
// client it is given; interrupted again, the next handle does the same (depth up to 3).

import (
	"context"
	"errors"
	"fmt"
	"io"
)

// a connected base client whose broker answers the first `answered` packets of an exchange
var errWrappedEOF = fmt.Errorf("transport write: %w", io.EOF)

func handleClient(name string, answered int, writeErrAt int, eofErr bool) (*vconn, *BaseClient) {
	conn := newVconn(name)
	cli := &BaseClient{Transport: conn}
	first := true
	seen := 0
	conn.onWrite = func(c *vconn, p []byte) error {
		var resp []byte
		if first {
			first = false
			resp = []byte{0x20, 2, 0, 0}
		} else if d := refDecode(p); d.ok {
			seen++
			if writeErrAt == seen {
				c.eof = true
				c.signalLocked = true
				if eofErr {
					return errWrappedEOF
				}
				return errVconnWrite
			}
			if seen <= answered {
				switch d.typ {
				case 3:
					if (d.flags>>1)&3 == 1 {
						resp = refEncodeAck(0x40, d.id)
					} else {
						resp = refEncodeAck(0x50, d.id)
					}
				case 6:
					resp = refEncodeAck(0x70, d.id)
				case 8:
					resp = append([]byte{0x90, byte(2 + len(d.qoss)), byte(d.id >> 8), byte(d.id)}, d.qoss...)
				case 10:
					resp = refEncodeAck(0xB0, d.id)
				}
			}
		}
		if resp != nil {
			c.rbuf = append(c.rbuf, resp...)
			c.nInjected += len(resp)
			c.signalLocked = true
		}
		return nil
	}
	_, err := cli.Connect(context.Background(), "cid")
	verifAssert(err == nil, "HANDLE.harness_connect")
	return conn, cli
}

func VerifH_Handle_Chain() {
	kind := c11Pub1 + verifChoice("kind", 4)
	depth := verifChoice("depth", verifParam("maxdepth", 2)) + 1
	topicB := verifNondetU8("topicbyte")
	verifAssume(verifAnd(topicB >= 'a', topicB <= 'z'))
	payB := verifNondetU8("payloadbyte")
	msg := &Message{Topic: string([]byte{'t', topicB}), QoS: QoS1, Retain: verifNondetBool("retain"), Payload: []byte{payB, 7}}
	msg.Dup = verifNondetBool("callerdup") // whatever the caller left in the struct: a first transmission has DUP=0
	if kind == c11Pub2 {
		msg.QoS = QoS2
	}
	presetID := verifChoice("presetid", 2) == 1
	if presetID {
		msg.ID = verifNondetU16("id")
		verifAssume(msg.ID != 0)
	}
	subs := []Subscription{{Topic: string([]byte{'s', topicB}), QoS: QoS(verifChoice("subqos", 3))}, {Topic: "x/#", QoS: QoS1}}
	var conns []*vconn
	var err error
	var id0 uint16
	relSent := false
	stage2 := false
	for level := 0; level <= depth; level++ {
		last := level == depth
		steps := c11Steps(kind)
		if stage2 {
			steps = 1 // only PUBREL/PUBCOMP is left
		}
		// how this attempt is interrupted: 0 context done while waiting, 1 peer close while waiting, 2 write error
		how := 0
		answered := steps
		writeErrAt := 0
		if !last {
			how = verifChoice("how", 3)
			answered = verifChoice("answered", steps)
			if how == 2 {
				writeErrAt = answered + 1
			}
		}
		eofErr := false
		if how == 2 && !last {
			eofErr = verifChoice("eoferr", 2) == 1
		}
		conn, cli := handleClient("c"+itoa(level), answered, writeErrAt, eofErr)
		conns = append(conns, conn)
		ctx, cancel := context.WithCancel(context.Background())
		if !last && how != 2 {
			go func() {
				verifPause()
				if how == 0 {
					cancel()
				} else {
					conn.peerClose()
				}
			}()
		}
		if level == 0 {
			switch kind {
			case c11Pub1, c11Pub2:
				err = cli.Publish(ctx, msg)
			case c11Sub:
				_, err = cli.Subscribe(ctx, subs...)
			case c11Unsub:
				err = cli.Unsubscribe(ctx, subs[0].Topic, subs[1].Topic)
			}
		} else {
			re, ok := err.(ErrorWithRetry)
			verifAssert(ok, "HANDLE.interrupted_request_returns_retry_handle")
			if !ok {
				cancel()
				return
			}
			err = re.Retry(ctx, cli)
		}
		cancel()
		// what went onto this connection's wire (attempts, including a failed write)
		verifLock()
		var pkts []refPacket
		for i, w := range conn.writes {
			if i == 0 {
				continue
			}
			pkts = append(pkts, refDecode(w.b))
		}
		verifUnlock()
		verifAssert(len(pkts) >= 1, "HANDLE.request_reissued_on_given_client")
		for pi, p := range pkts {
			verifAssert(p.ok, "HANDLE.reissued_packet_wellformed")
			verifAssert(refFlagsOK(p), "C05.reissued_packet_reserved_flags")
			switch kind {
			case c11Pub1, c11Pub2:
				if p.typ == 6 {
					verifAssert(p.id == id0, "C12.pubrel_same_id")
					continue
				}
				verifAssert(p.typ == 3, "HANDLE.reissued_kind")
				verifAssert(!relSent, "C12.no_publish_after_pubrel")
				verifAssert(!stage2, "C12.retry_resumes_at_pubrel_after_pubrec")
				if level == 0 && pi == 0 {
					id0 = p.id
					verifAssert(p.id != 0, "C15.id_nonzero")
					if presetID {
						verifAssert(p.id == msg.ID, "C15.preset_id_kept")
					}
					verifAssert(p.flags&0x08 == 0, "C12.first_transmission_dup0")
				} else {
					verifReach("retransmitted")
					verifAssert(p.flags&0x08 != 0, "C12.retransmission_dup1")
					verifAssert(p.id == id0, "C12.retransmission_same_id")
				}
				verifAssert(verifBytesEq(p.topic, []byte{'t', topicB}), "C12.same_topic")
				verifAssert(verifBytesEq(p.payload, []byte{payB, 7}), "C12.same_payload")
				verifAssert((p.flags>>1)&3 == byte(msg.QoS), "C12.same_qos")
				verifAssert((p.flags&1 != 0) == msg.Retain, "C12.same_retain")
			case c11Sub:
				verifAssert(p.typ == 8 && len(p.filters) == 2, "HANDLE.reissued_kind")
				if p.typ == 8 && len(p.filters) == 2 {
					verifAssert(verifBytesEq(p.filters[0], []byte{'s', topicB}), "C19.retry_same_filters")
					verifAssert(verifBytesEq(p.filters[1], []byte("x/#")), "C19.retry_same_filters")
					verifAssert(p.qoss[0] == byte(subs[0].QoS) && p.qoss[1] == 1, "C19.retry_same_qos")
				}
			case c11Unsub:
				verifAssert(p.typ == 10 && len(p.filters) == 2, "HANDLE.reissued_kind")
				if p.typ == 10 && len(p.filters) == 2 {
					verifAssert(verifBytesEq(p.filters[0], []byte{'s', topicB}), "C19.retry_same_filters")
				}
			}
		}
		for i, w := range conn.writes {
			if i > 0 && !w.err {
				if d := refDecode(w.b); d.ok && d.typ == 6 {
					relSent = true
				}
			}
		}
		if kind == c11Pub2 && !stage2 && answered >= 1 {
			stage2 = true // PUBREC was received: the exchange continues with PUBREL
		}
		if last {
			verifReach("completed")
			verifAssert(err == nil, "HANDLE.uninterrupted_retry_succeeds")
		} else {
			verifAssert(err != nil, "HANDLE.interrupted_request_reports_error")
			if how == 0 && err != nil {
				verifAssert(errors.Is(err, context.Canceled), "C19.cancelled_context_inspectable")
			}
			if how == 2 && eofErr && err != nil {
				verifAssert(errors.Is(err, io.EOF), "C19.wrapped_eof_inspectable")
			}
			if how == 1 && err != nil {
				verifAssert(errors.Is(err, ErrClosedTransport), "C19.closed_transport_inspectable")
			}
		}
		conn.Close()
	}
}
