package mqtt

// Harness runtime API.  Inside the symbolic executor every function below is
// intercepted by name (engine/intrinsics.go); the bodies here are what runs
// when the same harness is compiled natively to replay a counterexample: the
// nondeterministic values and choices come from the replay JSON by key.

import (
	"encoding/json"
	"fmt"
	"os"
	"runtime"
	"strings"
	"sync"
	"time"
)

type verifReplayFile struct {
	Harness string            `json:"harness"`
	Assert  string            `json:"assert"`
	Nondets map[string]uint64 `json:"nondets"`
	Choices map[string]int    `json:"choices"`
	Params  map[string]int    `json:"params"`
	Events  []string          `json:"events"`
}

var verifRT struct {
	mu       sync.Mutex
	big      sync.Mutex
	loaded   bool
	file     verifReplayFile
	ncnt     map[string]int
	ccnt     map[string]int
	Failed   []string
	Invalid  []string
	Reached  map[string]bool
	Events   []string
	quiesce  []func()
	t0       time.Time
	missing  []string
	resumeAt []int
	pauses   int
}

func verifInit() {
	verifRT.mu.Lock()
	defer verifRT.mu.Unlock()
	verifRT.loaded = true
	verifRT.ncnt = map[string]int{}
	verifRT.ccnt = map[string]int{}
	verifRT.Reached = map[string]bool{}
	verifRT.Failed, verifRT.Invalid, verifRT.Events, verifRT.quiesce, verifRT.missing = nil, nil, nil, nil, nil
	verifRT.t0 = time.Now()
	verifRT.file = verifReplayFile{}
	if p := os.Getenv("VERIF_REPLAY"); p != "" {
		b, err := os.ReadFile(p)
		if err != nil {
			panic(err)
		}
		if err := json.Unmarshal(b, &verifRT.file); err != nil {
			panic(err)
		}
		// gating of environment threads: the k-th pause ends once as many events
		// have happened natively as preceded the k-th "~resume" in the recorded run
		n := 0
		verifRT.resumeAt = nil
		verifRT.pauses = 0
		for _, e := range verifRT.file.Events {
			if strings.HasPrefix(e, "~resume") {
				verifRT.resumeAt = append(verifRT.resumeAt, n)
			} else if !strings.HasPrefix(e, "~") && !strings.HasPrefix(e, "PANIC") {
				n++
			}
		}
	}
}

func verifKey(m map[string]int, key string) string {
	n := m[key]
	m[key] = n + 1
	if n > 0 {
		return fmt.Sprintf("%s#%d", key, n)
	}
	return key
}

func verifNondet(key string) uint64 {
	verifRT.mu.Lock()
	defer verifRT.mu.Unlock()
	k := verifKey(verifRT.ncnt, key)
	v, ok := verifRT.file.Nondets[k]
	if !ok {
		verifRT.missing = append(verifRT.missing, k)
	}
	return v
}

func verifNondetU8(key string) uint8          { return uint8(verifNondet(key)) }
func verifNondetU16(key string) uint16        { return uint16(verifNondet(key)) }
func verifNondetU32(key string) uint32        { return uint32(verifNondet(key)) }
func verifNondetU64(key string) uint64        { return verifNondet(key) }
func verifNondetInt(key string) int           { return int(verifNondet(key)) }
func verifNondetDur(key string) time.Duration { return time.Duration(verifNondet(key)) }
func verifNondetBool(key string) bool         { return verifNondet(key) != 0 }

func verifChoice(key string, n int) int {
	verifRT.mu.Lock()
	defer verifRT.mu.Unlock()
	k := verifKey(verifRT.ccnt, key)
	v, ok := verifRT.file.Choices[k]
	if !ok {
		verifRT.missing = append(verifRT.missing, "choice:"+k)
	}
	if v >= n {
		v = 0
	}
	return v
}

func verifAssume(c bool) {
	if !c {
		verifRT.mu.Lock()
		verifRT.Invalid = append(verifRT.Invalid, "assumption false")
		verifRT.mu.Unlock()
		runtime.Goexit()
	}
}

func verifAssert(c bool, id string) {
	if !c {
		verifRT.mu.Lock()
		verifRT.Failed = append(verifRT.Failed, id)
		verifRT.mu.Unlock()
	}
}

func verifAnd(a, b bool) bool     { return a && b }
func verifOr(a, b bool) bool      { return a || b }
func verifImplies(a, b bool) bool { return !a || b }
func verifBytesEq(a, b []byte) bool {
	return string(a) == string(b)
}
func verifStrEq(a, b string) bool { return a == b }
func verifIteU8(c bool, a, b uint8) uint8 {
	if c {
		return a
	}
	return b
}

func verifIteU16(c bool, a, b uint16) uint16 {
	if c {
		return a
	}
	return b
}

func verifReach(label string) {
	verifRT.mu.Lock()
	verifRT.Reached[label] = true
	verifRT.mu.Unlock()
}
func verifYield() { runtime.Gosched() }
func verifOnQuiescence(f func()) {
	verifRT.mu.Lock()
	verifRT.quiesce = append(verifRT.quiesce, f)
	verifRT.mu.Unlock()
}
func verifNow() int64 { return int64(time.Since(verifRT.t0)) }
func verifPause() {
	verifRT.mu.Lock()
	k := verifRT.pauses
	verifRT.pauses++
	want := -1
	if k < len(verifRT.resumeAt) {
		want = verifRT.resumeAt[k]
	}
	verifRT.mu.Unlock()
	if want < 0 {
		time.Sleep(20 * time.Millisecond)
		return
	}
	for i := 0; i < 2000; i++ {
		verifRT.mu.Lock()
		n := len(verifRT.Events)
		verifRT.mu.Unlock()
		if n >= want {
			return
		}
		time.Sleep(time.Millisecond)
	}
}
func verifPauseAny() { verifPause() }

// verifSettle: natively give the goroutines started so far a moment to run (no happens-before edge);
// a no-op in the executor, where the scheduler explores the orders.
func verifSettle() { time.Sleep(2 * time.Millisecond) }

func verifLive() int {
	buf := make([]byte, 1<<20)
	buf = buf[:runtime.Stack(buf, true)]
	n := 0
	for _, g := range strings.Split(string(buf), "\n\n") {
		if strings.Contains(g, "mqtt-go.(*BaseClient)") || strings.Contains(g, "mqtt-go.(*RetryClient)") ||
			strings.Contains(g, "mqtt-go.(*reconnectClient)") || strings.Contains(g, "mqtt-go.KeepAlive") {
			if !strings.Contains(g, "VerifH_") && !strings.Contains(g, "verifLive") {
				n++
			}
		}
	}
	return n
}
func verifEvent(s string) {
	verifRT.mu.Lock()
	verifRT.Events = append(verifRT.Events, s)
	verifRT.mu.Unlock()
}
func verifLock()                         { verifRT.big.Lock() }
func verifUnlock()                       { verifRT.big.Unlock() }
func verifSymbolic() bool                { return false }

// verifIOWrite / verifIORead: happens-before through the transport, as Go's own race detector models it for
// real connections (internal/poll: every Write is a release on a global ioSync, every Read an acquire).
// Natively they do nothing (the in-memory transport's lock already orders the two).
func verifIOWrite() {}
func verifIORead()  {}
func verifCut(s string)                  {}
func verifSetRand(v int)                 {}
func verifParam(name string, def int) int {
	verifRT.mu.Lock()
	defer verifRT.mu.Unlock()
	if v, ok := verifRT.file.Params[name]; ok {
		return v
	}
	return def
}
func verifExpectMake(fn string, max int) {}
func verifExpectMakeEq(fn string, n int)  {}
func verifWaitCond(f func() bool) {
	for i := 0; i < 2000 && !f(); i++ {
		time.Sleep(time.Millisecond)
	}
}
