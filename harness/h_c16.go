package mqtt

// C16 (a): one base-client connection and the ways it can end, racing with each other
// and with Connect (delay-bounded schedules).

import (
	"context"
	"errors"
	"io"
)

func VerifH_C16_Base() {
	conn := newVconn("c0")
	if verifChoice("closeerr", 2) == 1 {
		conn.closeErr = errors.New("transport teardown error")
	}
	cli := &BaseClient{Transport: conn}
	var states []ConnState
	var serrs []error
	cli.ConnState = func(s ConnState, err error) {
		verifLock()
		states = append(states, s)
		serrs = append(serrs, err)
		verifUnlock()
		verifEvent("state(" + s.String() + ")")
	}
	refused := verifChoice("connack", 3) // 0 accepted, 1 refused, 2 none
	switch refused {
	case 0:
		conn.answerConnect([]byte{0x20, 2, 0, 0})
	case 1:
		conn.answerConnect([]byte{0x20, 2, 0, 5})
	}
	nc := verifChoice("ncauses", 2) + 1
	causes := make([]int, nc)
	for i := range causes {
		// 0 peer close, 1 local Close, 2 malformed packet, 3 Disconnect,
		// 4 the write side breaks and an inbound packet needs an acknowledgement (PUBACK / PUBREC / PUBCOMP cannot be sent)
		causes[i] = verifChoice("cause", 5)
	}
	disconnectCalled := false
	disconnectReturned := false
	go func() {
		for _, k := range causes {
			if verifChoice("wait", 2) == 1 {
				verifPause()
			}
			switch k {
			case 0:
				verifEvent("cause:peerclose")
				conn.peerClose()
			case 1:
				verifEvent("cause:close")
				cli.Close()
			case 2:
				verifEvent("cause:malformed")
				conn.inject([]byte{0xF0, 0})
			case 4:
				switch verifChoice("inbound", 3) {
				case 0:
					verifEvent("cause:ackfail(puback)")
					conn.breakWrites()
					conn.inject([]byte{0x32, 5, 0, 1, 't', 0, 1})
				case 1:
					verifEvent("cause:ackfail(pubrec)")
					conn.breakWrites()
					conn.inject([]byte{0x34, 5, 0, 1, 't', 0, 1})
				case 2:
					verifEvent("cause:ackfail(pubcomp)")
					conn.inject([]byte{0x34, 5, 0, 1, 't', 0, 1})
					verifPause()
					conn.breakWrites()
					conn.inject([]byte{0x62, 2, 0, 1})
				}
			case 3:
				verifEvent("cause:disconnect")
				verifLock()
				disconnectCalled = true
				verifUnlock()
				_ = cli.Disconnect(context.Background())
				disconnectReturned = true
			}
		}
	}()
	connectErr := error(nil)
	connectReturned := false
	verifOnQuiescence(func() {
		verifReach("end")
		onlyDisconnect := true
		for _, k := range causes {
			if k != 3 {
				onlyDisconnect = false
			}
		}
		if refused == 2 && (onlyDisconnect || causes[0] == 3) {
			// Connect waits for a CONNACK that never comes (background context) and Disconnect waits
			// for Connect: nothing ends this connection; outside the statement
			return
		}
		verifAssert(connectReturned, "C16.connect_returns")
		verifLock()
		defer verifUnlock()
		nActive, nClosed, nDisc := 0, 0, 0
		discAt := -1
		for i, s := range states {
			switch s {
			case StateActive:
				nActive++
				verifAssert(refused == 0, "C16.active_only_after_accepting_connack")
			case StateClosed:
				nClosed++
				verifAssert(serrs[i] != nil, "C16.closed_carries_error")
				verifAssert(serrs[i] == cli.Err(), "C16.closed_error_is_err")
				verifAssert(discAt < 0, "C16.no_closed_after_disconnected")
			case StateDisconnected:
				nDisc++
				discAt = i
			}
		}
		verifAssert(nActive <= 1, "C16.active_at_most_once")
		verifAssert(nClosed <= 1, "C16.closed_at_most_once")
		doneClosed := false
		select {
		case <-cli.Done():
			doneClosed = true
		default:
		}
		// every cause ends the connection
		verifAssert(doneClosed, "C16.done_closed_when_connection_ended")
		if disconnectCalled {
			verifReach("disconnect")
			verifAssert(disconnectReturned, "C16.disconnect_returns")
			verifAssert(nDisc == 1, "C16.disconnected_reported_once")
			if causes[0] == 3 {
				// Disconnect was the first thing to happen to the connection
				verifAssert(nClosed == 0, "C16.no_closed_when_disconnect_called_first")
			}
			if nc == 1 && refused == 0 && causes[0] == 3 {
				verifAssert(cli.Err() == nil, "C16.err_nil_after_graceful_disconnect")
			}
		} else {
			verifReach("no-disconnect")
			verifAssert(nClosed == 1, "C16.closed_reported_once_when_connection_ended")
			verifAssert(cli.Err() != nil, "C16.err_reports_cause")
			// the error is the one that ended the connection, not a by-product of tearing it down
			if nc == 1 && refused == 0 {
				switch causes[0] {
				case 0:
					verifAssert(cli.Err() == io.EOF, "C16.err_is_the_cause")
				case 2:
					verifAssert(errors.Is(cli.Err(), ErrInvalidPacket), "C16.err_is_the_cause")
				case 4:
					verifAssert(errors.Is(cli.Err(), errVconnWrite), "C16.err_is_the_cause")
				}
			}
		}
		_ = connectErr
	})
	_, connectErr = cli.Connect(context.Background(), "cid")
	connectReturned = true
	verifEvent("connect-returned")
	if d := cli.Done(); d != nil {
		<-d
		verifLock()
		dc := disconnectCalled
		verifUnlock()
		if !dc {
			// the connection ended on its own: the moment Done() is closed, the error that ended it is visible
			verifAssert(cli.Err() != nil, "C16.err_visible_when_done_closes")
		}
	}
}
