package mqtt

// vconn: in-memory io.ReadWriteCloser used as BaseClient.Transport.
// Write honours the io.Writer contract (all bytes or an error), optionally
// yields between two halves of the buffer (so that only the client's own write
// lock makes packets atomic), and records every attempt and its outcome.
// Read blocks until data, EOF or close.  Writes never block.

import (
	"errors"
	"io"
)

var errVconnClosed = errors.New("vconn: use of closed connection")
var errVconnWrite = errors.New("vconn: write error injected")

type vconnWrite struct {
	b   []byte
	err bool
}

type vconn struct {
	name    string
	rbuf    []byte
	closed  bool // closed locally (Close called)
	eof     bool // peer closed its side
	split   bool // yield in the middle of each Write
	writes  []vconnWrite
	wire    []byte // byte stream as assembled on the wire
	notify  chan struct{}
	onWrite func(c *vconn, p []byte) error // called with the whole buffer before it is accepted
	nClose  int
	nRead   int // bytes handed to the client
	id           int
	hook         *vbroker // broker model processing every write attempt
	nInjected    int
	signalLocked bool // a signal is due once the atomic section is left
	closedAt     int64
	stamp        bool
	yieldAfterWrite bool // a scheduling point after the packet was accepted and before Write returns
	closeErr        error // returned by the first Close (e.g. a TLS / websocket teardown error)
	failWrites      bool  // the write side is broken (every Write fails) while the read side still delivers
}

func newVconn(name string) *vconn {
	return &vconn{name: name, notify: make(chan struct{}, 1)}
}

func (c *vconn) signal() {
	select {
	case c.notify <- struct{}{}:
	default:
	}
}

func (c *vconn) Read(p []byte) (int, error) {
	for {
		verifLock()
		if c.closed {
			verifUnlock()
			verifIORead()
			return 0, errVconnClosed
		}
		if len(c.rbuf) > 0 {
			n := copy(p, c.rbuf)
			c.rbuf = c.rbuf[n:]
			c.nRead += n
			verifUnlock()
			verifIORead()
			return n, nil
		}
		if c.eof {
			verifUnlock()
			verifIORead()
			return 0, io.EOF
		}
		verifUnlock()
		<-c.notify
	}
}

func (c *vconn) Write(p []byte) (int, error) {
	verifIOWrite()
	verifLock()
	if c.hook != nil {
		err := c.hook.attempt(c, p, c.closed || c.eof)
		c.writes = append(c.writes, vconnWrite{append([]byte{}, p...), err != nil})
		sig := c.signalLocked
		c.signalLocked = false
		if err == nil {
			c.wire = append(c.wire, p...)
		}
		verifUnlock()
		if sig {
			c.signal()
		}
		if err != nil {
			return 0, err
		}
		return len(p), nil
	}
	if c.closed || c.eof {
		c.writes = append(c.writes, vconnWrite{append([]byte{}, p...), true})
		verifUnlock()
		return 0, errVconnClosed
	}
	if c.failWrites {
		c.writes = append(c.writes, vconnWrite{append([]byte{}, p...), true})
		verifUnlock()
		return 0, errVconnWrite
	}
	if c.onWrite != nil {
		if err := c.onWrite(c, p); err != nil {
			c.writes = append(c.writes, vconnWrite{append([]byte{}, p...), true})
			sig := c.signalLocked
			c.signalLocked = false
			verifUnlock()
			if sig {
				c.signal()
			}
			return 0, err
		}
	}
	c.writes = append(c.writes, vconnWrite{append([]byte{}, p...), false})
	sig := c.signalLocked
	c.signalLocked = false
	if c.yieldAfterWrite {
		c.wire = append(c.wire, p...)
		verifUnlock()
		if sig {
			c.signal()
		}
		verifYield()
		return len(p), nil
	}
	if sig {
		defer c.signal()
	}
	if c.split && len(p) > 1 {
		h := len(p) / 2
		c.wire = append(c.wire, p[:h]...)
		verifUnlock()
		verifYield()
		verifLock()
		c.wire = append(c.wire, p[h:]...)
	} else {
		c.wire = append(c.wire, p...)
	}
	verifUnlock()
	return len(p), nil
}

func (c *vconn) Close() error {
	verifIOWrite()
	verifLock()
	c.nClose++
	already := c.closed
	if !already {
		c.closedAt = verifNow()
	}
	c.closed = true
	verifUnlock()
	c.signal()
	if already {
		return errVconnClosed
	}
	return c.closeErr
}

// inject makes bytes available to the client's reader.
func (c *vconn) inject(b []byte) {
	verifIOWrite()
	verifLock()
	c.rbuf = append(c.rbuf, b...)
	c.nInjected += len(b)
	verifUnlock()
	c.signal()
}

// peerClose: the broker closes the connection; the client reads EOF after buffered data.
func (c *vconn) peerClose() {
	verifIOWrite()
	verifLock()
	c.eof = true
	verifUnlock()
	c.signal()
}

// breakWrites: from now on every Write fails; reads are unaffected.
func (c *vconn) breakWrites() {
	verifLock()
	c.failWrites = true
	verifUnlock()
}

func (c *vconn) isClosed() bool {
	verifLock()
	defer verifUnlock()
	return c.closed
}

func (c *vconn) okWrites() [][]byte {
	verifLock()
	defer verifUnlock()
	var out [][]byte
	for _, w := range c.writes {
		if !w.err {
			out = append(out, w.b)
		}
	}
	return out
}

func verifBytes(key string, n int) []byte {
	b := make([]byte, n)
	for i := range b {
		b[i] = verifNondetU8(key)
	}
	return b
}

// answerConnect makes the connection behave like a broker that sends resp once it has
// received the first packet (CONNECT), never earlier.
func (c *vconn) answerConnect(resp []byte) {
	first := true
	c.onWrite = func(c *vconn, p []byte) error {
		if first {
			first = false
			c.rbuf = append(c.rbuf, resp...)
			c.nInjected += len(resp)
			c.signalLocked = true
		}
		return nil
	}
}
