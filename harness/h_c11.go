package mqtt

// C11: every blocking call returns when its context is cancelled or the connection ends,
// at whatever step of the exchange that happens.

import (
	"context"
	"errors"
	"time"
)

const (
	c11Connect = iota
	c11Pub1
	c11Pub2
	c11Sub
	c11Unsub
	c11Ping
)

func c11Steps(kind int) int {
	if kind == c11Pub2 {
		return 2
	}
	return 1
}

func c11Call(cli *BaseClient, ctx context.Context, kind int) error {
	switch kind {
	case c11Connect:
		_, err := cli.Connect(ctx, "cid")
		return err
	case c11Pub1:
		return cli.Publish(ctx, &Message{Topic: "t", QoS: QoS1, Payload: []byte{1}})
	case c11Pub2:
		return cli.Publish(ctx, &Message{Topic: "t", QoS: QoS2, Payload: []byte{1}})
	case c11Sub:
		_, err := cli.Subscribe(ctx, Subscription{Topic: "a", QoS: QoS1})
		return err
	case c11Unsub:
		return cli.Unsubscribe(ctx, "a")
	}
	return cli.Ping(ctx)
}

func VerifH_C11_Blocking() {
	conn := newVconn("c0")
	cli := &BaseClient{Transport: conn}
	if verifChoice("callback", 2) == 1 {
		// a state callback that looks at its own client, as applications do
		cli.ConnState = func(s ConnState, err error) {
			_ = cli.Err()
			_ = cli.Done()
		}
	}
	kind := verifChoice("call", 6)
	answered := verifChoice("answered", c11Steps(kind)) // exchange packets answered before the cause
	cause := verifChoice("cause", 7)                    // 0 cancel, 1 deadline, 2 local Close, 3 peer close, 4 malformed packet, 5 Disconnect from another goroutine, 6 the call's own write fails
	second := -1
	if kind != c11Connect && verifChoice("two", 2) == 1 {
		second = c11Sub
		if kind == c11Sub {
			second = c11Pub1
		}
	}
	// broker script: CONNACK (unless the call under test is Connect), then the first `answered` packets of each exchange
	seen := 0
	first := true
	conn.onWrite = func(c *vconn, p []byte) error {
		d := refDecode(p)
		var resp []byte
		if cause == 6 && (kind == c11Connect && first || kind != c11Connect && !first && seen == answered) {
			// the transport fails while the call writes its packet (the connection is gone)
			first = false
			c.eof = true
			c.signalLocked = true
			return errVconnWrite
		}
		if first {
			first = false
			if kind != c11Connect {
				resp = []byte{0x20, 2, 0, 0}
			}
		} else if d.ok {
			// only the exchange of the first call is scripted; the second call is never answered
			isFirstCall := (kind == c11Pub1 || kind == c11Pub2) && (d.typ == 3 || d.typ == 6) ||
				kind == c11Sub && d.typ == 8 || kind == c11Unsub && d.typ == 10 || kind == c11Ping && d.typ == 12
			if isFirstCall && seen < answered {
				seen++
				switch d.typ {
				case 3:
					if (d.flags>>1)&3 == 1 {
						resp = refEncodeAck(0x40, d.id)
					} else {
						resp = refEncodeAck(0x50, d.id)
					}
				case 6:
					resp = refEncodeAck(0x70, d.id)
				case 8:
					resp = []byte{0x90, 3, byte(d.id >> 8), byte(d.id), 1}
				case 10:
					resp = refEncodeAck(0xB0, d.id)
				case 12:
					resp = []byte{0xD0, 0}
				}
			}
		}
		if resp != nil {
			c.rbuf = append(c.rbuf, resp...)
			c.nInjected += len(resp)
			c.signalLocked = true
		}
		return nil
	}
	unit := time.Second
	if !verifSymbolic() {
		unit = 20 * time.Millisecond
	}
	ctx := context.Background()
	var cancel context.CancelFunc = func() {}
	switch cause {
	case 0:
		ctx, cancel = context.WithCancel(ctx)
	case 1:
		ctx, cancel = context.WithTimeout(ctx, unit)
	}
	defer cancel()
	returned, returned2 := false, false
	disconnectReturned := false
	skipFinal := false
	var err1, err2 error
	causeApplied := false
	if cause != 1 && cause != 6 {
		go func() {
			verifPause()
			causeApplied = true
			switch cause {
			case 0:
				verifEvent("cause:cancel")
				cancel()
			case 2:
				verifEvent("cause:close")
				cli.Close()
			case 3:
				verifEvent("cause:peerclose")
				conn.peerClose()
			case 4:
				verifEvent("cause:malformed")
				conn.inject([]byte{0xF0, 0})
			case 5:
				verifEvent("cause:disconnect")
				_ = cli.Disconnect(context.Background())
				disconnectReturned = true
			}
		}()
	}
	verifOnQuiescence(func() {
		verifReach("after-cause")
		if cause == 5 && kind != c11Connect {
			verifAssert(disconnectReturned, "C11.disconnect_returns_while_other_call_blocked")
		}
		if cause == 5 && kind == c11Connect {
			// Disconnect waits for a Connect that is still waiting for its CONNACK: outside the claim
			skipFinal = true
			return
		}
		verifAssert(returned, "C11.call_returns")
		if second >= 0 {
			verifAssert(returned2, "C11.second_call_returns")
		}
		if !returned {
			return
		}
		verifAssert(err1 != nil, "C11.interrupted_call_reports_error")
		if cause == 6 {
			verifReach("write-failed")
		} else if cause <= 1 {
			verifAssert(errors.Is(err1, ctx.Err()), "C11.cancelled_context_reported_as_its_error")
			if second >= 0 && returned2 {
				verifAssert(errors.Is(err2, ctx.Err()), "C11.cancelled_context_reported_as_its_error")
			}
		} else {
			verifReach("connection-ended")
			closed := false
			select {
			case <-cli.Done():
				closed = true
			default:
			}
			verifAssert(closed, "C11.done_closed_when_connection_ends")
			verifAssert(verifLive() == 0, "C11.reader_exits_when_connection_ends")
		}
		// whatever happened: once the transport is closed nothing of the library is left running
		cli.Close()
	})
	verifOnQuiescence(func() {
		verifReach("final")
		if skipFinal {
			return
		}
		verifAssert(verifLive() == 0, "C11.nothing_left_running")
		if d := cli.Done(); d != nil {
			closed := false
			select {
			case <-d:
				closed = true
			default:
			}
			verifAssert(closed, "C11.done_closed_after_transport_closed")
		} else {
			verifAssert(kind != c11Connect, "C11.done_available_after_connect")
		}
	})
	if kind != c11Connect {
		_, cerr := cli.Connect(context.Background(), "cid")
		verifAssert(cerr == nil, "C11.harness_connect")
	}
	if second >= 0 {
		go func() {
			err2 = c11Call(cli, ctx, second)
			returned2 = true
			verifEvent("second-returned")
		}()
	}
	err1 = c11Call(cli, ctx, kind)
	returned = true
	verifEvent("returned")
	_ = causeApplied
}
