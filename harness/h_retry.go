package mqtt

// U-retry (C01, C02, C03, C12): one pass of the real Retry task over a retry queue of
// n harness entries, entry i failing with an ErrorWithRetry: afterwards the queue must be
// exactly [continuation(i), old[i+1], ..., old[n-1]] and entries 0..i ran once each.
// The pre-state is arbitrary in content (closures are opaque to Retry), so this covers
// retry passes after any history.

import "context"

type verifRetryErr struct {
	tag int
	log *[]int
}

func (e *verifRetryErr) Error() string { return "retry" }
func (e *verifRetryErr) Retry(ctx context.Context, cli *BaseClient) error {
	*e.log = append(*e.log, 100+e.tag)
	return nil
}

func VerifH_Retry_Pass() {
	n := verifChoice("n", verifParam("maxqueue", 4)) + 1
	fail := verifChoice("fail", n+1) // index failing, n = none
	var log []int
	rc := &RetryClient{}
	for i := 0; i < n; i++ {
		i := i
		rc.retryQueue = append(rc.retryQueue, func(ctx context.Context, cli *BaseClient) error {
			log = append(log, i)
			if i == fail {
				return &verifRetryErr{tag: i, log: &log}
			}
			return nil
		})
	}
	// run the task body the way the task goroutine does
	rc.Retry(context.Background())
	verifAssert(len(rc.taskQueue) == 1, "Retry.task_pushed")
	task := rc.taskQueue[0]
	cli := &BaseClient{}
	task(context.Background(), cli)
	verifReach("pass-done")
	// which entries ran
	wantRan := n
	if fail < n {
		wantRan = fail + 1
	}
	verifAssert(len(log) == wantRan, "Retry.entries_run_once_up_to_failure")
	for i := 0; i < len(log) && i < wantRan; i++ {
		verifAssert(log[i] == i, "Retry.entries_run_in_order")
	}
	// what is queued afterwards: run it and observe the tags
	log = nil
	q := rc.retryQueue
	for _, f := range q {
		f(context.Background(), cli)
	}
	if fail == n {
		verifAssert(len(q) == 0, "Retry.queue_empty_after_success")
		return
	}
	verifReach("failed-entry")
	want := []int{100 + fail}
	for i := fail + 1; i < n; i++ {
		want = append(want, i)
	}
	verifAssert(len(log) == len(want), "Retry.requeue_is_continuation_plus_tail")
	for i := 0; i < len(log) && i < len(want); i++ {
		verifAssert(log[i] == want[i], "Retry.requeue_order")
	}
}

// U-task (C01, C03): requests queued behind a non-empty retry queue are real closures of the retrying
// client; when a retry pass runs them on a dead client each fails in turn and re-queues itself.
// The queue afterwards, run on a healthy client, must put them on the wire in submission order.
func VerifH_Retry_QueuedFail() {
	k := verifChoice("queued", verifParam("maxqueued", 3)) + 1
	rc := &RetryClient{}
	var order []int
	// something is already pending, so new requests are queued, not sent
	rc.retryQueue = append(rc.retryQueue, func(ctx context.Context, cli *BaseClient) error { return nil })
	dead := newVconn("dead")
	deadCli := &BaseClient{Transport: dead}
	dead.answerConnect([]byte{0x20, 2, 0, 0})
	_, err := deadCli.Connect(context.Background(), "cid")
	verifAssert(err == nil, "Retry.harness_connect")
	dead.peerClose()
	<-deadCli.Done()
	kinds := make([]int, k)
	for i := 0; i < k; i++ {
		kinds[i] = verifChoice("kind", 3) // 0 publish q1, 1 subscribe, 2 unsubscribe
		switch kinds[i] {
		case 0:
			rc.publish(context.Background(), deadCli, &Message{Topic: "t", QoS: QoS1, Payload: []byte{byte(i + 1)}})
		case 1:
			rc.subscribe(context.Background(), false, deadCli, Subscription{Topic: string([]byte{'s', byte('a' + i)}), QoS: QoS1})
		case 2:
			rc.unsubscribe(context.Background(), deadCli, string([]byte{'s', byte('a' + i)}))
		}
	}
	verifAssert(len(rc.retryQueue) == k+1, "Retry.requests_queued_behind_pending")
	// a retry pass on the dead client: every queued request fails and re-queues itself
	rc.Retry(context.Background())
	task := rc.taskQueue[0]
	task(context.Background(), deadCli)
	verifReach("dead-pass-done")
	verifAssert(len(rc.retryQueue) == k, "Retry.failed_requests_requeued")
	// now a healthy client: observe the order on the wire
	c1 := newVconn("c1")
	cli1 := &BaseClient{Transport: c1}
	first := true
	c1.onWrite = func(c *vconn, p []byte) error {
		var resp []byte
		if first {
			first = false
			resp = []byte{0x20, 2, 0, 0}
		} else if d := refDecode(p); d.ok {
			switch d.typ {
			case 3:
				order = append(order, int(d.payload[0])-1)
				resp = refEncodeAck(0x40, d.id)
			case 8:
				order = append(order, int(d.filters[0][1]-'a'))
				resp = append([]byte{0x90, byte(2 + len(d.qoss)), byte(d.id >> 8), byte(d.id)}, d.qoss...)
			case 10:
				order = append(order, int(d.filters[0][1]-'a'))
				resp = refEncodeAck(0xB0, d.id)
			}
		}
		if resp != nil {
			c.rbuf = append(c.rbuf, resp...)
			c.nInjected += len(resp)
			c.signalLocked = true
		}
		return nil
	}
	_, err = cli1.Connect(context.Background(), "cid")
	verifAssert(err == nil, "Retry.harness_connect2")
	q := rc.retryQueue
	rc.retryQueue = nil
	for _, f := range q {
		_ = f(context.Background(), cli1)
	}
	c1.Close()
	verifAssert(len(order) == k, "Retry.every_failed_request_retransmitted_once")
	for i := 0; i < len(order) && i < k; i++ {
		verifAssert(order[i] == i, "Retry.retransmission_keeps_submission_order")
	}
}
