package mqtt

// U-retry (C01, C02, C03, C12): one pass of the real Retry task over a retry queue of
// n harness entries, entry i failing with an ErrorWithRetry: afterwards the queue must be
// exactly [continuation(i), old[i+1], ..., old[n-1]] and entries 0..i ran once each.
// The pre-state is arbitrary in content (closures are opaque to Retry), so this covers
// retry passes after any history.

import "context"

type verifRetryErr struct {
	tag int
	log *[]int
}

func (e *verifRetryErr) Error() string { return "retry" }
func (e *verifRetryErr) Retry(ctx context.Context, cli *BaseClient) error {
	*e.log = append(*e.log, 100+e.tag)
	return nil
}

func VerifH_Retry_Pass() {
	n := verifChoice("n", verifParam("maxqueue", 4)) + 1
	fail := verifChoice("fail", n+1) // index failing, n = none
	var log []int
	rc := &RetryClient{}
	for i := 0; i < n; i++ {
		i := i
		rc.retryQueue = append(rc.retryQueue, func(ctx context.Context, cli *BaseClient) error {
			log = append(log, i)
			if i == fail {
				return &verifRetryErr{tag: i, log: &log}
			}
			return nil
		})
	}
	// run the task body the way the task goroutine does
	rc.Retry(context.Background())
	verifAssert(len(rc.taskQueue) == 1, "Retry.task_pushed")
	task := rc.taskQueue[0]
	cli := &BaseClient{}
	task(context.Background(), cli)
	verifReach("pass-done")
	// which entries ran
	wantRan := n
	if fail < n {
		wantRan = fail + 1
	}
	verifAssert(len(log) == wantRan, "Retry.entries_run_once_up_to_failure")
	for i := 0; i < len(log) && i < wantRan; i++ {
		verifAssert(log[i] == i, "Retry.entries_run_in_order")
	}
	// what is queued afterwards: run it and observe the tags
	log = nil
	q := rc.retryQueue
	for _, f := range q {
		f(context.Background(), cli)
	}
	if fail == n {
		verifAssert(len(q) == 0, "Retry.queue_empty_after_success")
		return
	}
	verifReach("failed-entry")
	want := []int{100 + fail}
	for i := fail + 1; i < n; i++ {
		want = append(want, i)
	}
	verifAssert(len(log) == len(want), "Retry.requeue_is_continuation_plus_tail")
	for i := 0; i < len(log) && i < len(want); i++ {
		verifAssert(log[i] == want[i], "Retry.requeue_order")
	}
}
