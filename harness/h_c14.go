package mqtt

// C14: topic filter validation / matching per MQTT 3.1.1 §4.7, and ServeMux dispatch.
// The reference is written level-free as a boolean dynamic programme over byte
// positions (no strings package, no branching on symbolic bytes).

func refValidFilter(f []byte) bool {
	n := len(f)
	if n == 0 {
		return false
	}
	ok := true
	for i := 0; i < n; i++ {
		startOfLevel := i == 0
		if i > 0 {
			startOfLevel = f[i-1] == '/'
		}
		endOfLevel := i == n-1
		if i < n-1 {
			endOfLevel = f[i+1] == '/'
		}
		ok = verifAnd(ok, verifImplies(f[i] == '+', verifAnd(startOfLevel, endOfLevel)))
		ok = verifAnd(ok, verifImplies(f[i] == '#', verifAnd(startOfLevel, i == n-1)))
	}
	return ok
}

// refMatch: for a valid filter f and a topic name t (no wildcards in t).
func refMatch(f, t []byte) bool {
	n, m := len(f), len(t)
	M := make([][]bool, n+1)
	P := make([][]bool, n+1)
	for i := range M {
		M[i] = make([]bool, m+2)
		P[i] = make([]bool, m+2)
	}
	for j := 0; j <= m; j++ {
		M[n][j] = j == m
	}
	for i := n - 1; i >= 0; i-- {
		isHash := f[i] == '#'
		isPlus := f[i] == '+'
		for j := m; j >= 0; j-- {
			lit := false
			if j < m {
				lit = verifAnd(f[i] == t[j], M[i+1][j+1])
			}
			plus := M[i+1][j]
			if j < m {
				plus = verifOr(plus, verifAnd(t[j] != '/', P[i][j+1]))
			}
			P[i][j] = plus
			parent := false
			if i+2 == n && j == m {
				parent = verifAnd(f[i] == '/', f[i+1] == '#')
			}
			c := verifOr(isHash, verifAnd(isPlus, plus))
			c = verifOr(c, verifAnd(verifAnd(!isHash, !isPlus), lit))
			c = verifOr(c, parent)
			M[i][j] = c
		}
	}
	return M[0][0]
}

func verifFilterBytes(key string, n int) []byte {
	b := verifBytes(key, n)
	for _, c := range b {
		// two ordinary characters, one of them '$' (only special at the very beginning of a topic name, which is excluded below)
		ok := verifOr(verifOr(c == '/', c == '+'), verifOr(c == '#', verifOr(c == 'a', c == '$')))
		verifAssume(ok)
	}
	return b
}

func verifTopicBytes(key string, n int) []byte {
	b := verifBytes(key, n)
	for _, c := range b {
		verifAssume(verifOr(c == '/', verifOr(c == 'a', c == '$')))
	}
	if n > 0 {
		verifAssume(b[0] != '$') // topic names beginning with '$' are outside the statement (MQTT 4.7.2)
	}
	return b
}

func VerifH_C14_Filter() {
	fl := verifChoice("flen", verifParam("maxf", 3)+1)
	tl := verifChoice("tlen", verifParam("maxt", 3)) + 1
	f := verifFilterBytes("f", fl)
	t := verifTopicBytes("t", tl)
	tf, err := newTopicFilter(string(f))
	valid := refValidFilter(f)
	verifAssert((err == nil) == valid, "C14.filter_accepted_iff_valid")
	if err != nil {
		verifReach("rejected")
		return
	}
	got := tf.Match(string(t))
	verifReach("matched")
	verifAssert(got == refMatch(f, t), "C14.match_per_4_7")
}

func VerifH_C14_Mux() {
	nf := verifChoice("nfilters", verifParam("maxfilters", 2)) + 1
	mux := &ServeMux{}
	var called []int
	var fs [][]byte
	var valid []bool
	for i := 0; i < nf; i++ {
		i := i
		f := verifFilterBytes("f", verifChoice("flen", verifParam("maxmf", 2))+1)
		err := mux.Handle(string(f), HandlerFunc(func(m *Message) {
			called = append(called, i)
			m.Topic = "#/+" // a handler may do what it likes with its copy
		}))
		v := refValidFilter(f)
		verifAssert((err == nil) == v, "C14.mux_handle_error_iff_invalid")
		fs = append(fs, f)
		valid = append(valid, err == nil)
	}
	t := verifTopicBytes("t", verifChoice("tlen", verifParam("maxmt", 2))+1)
	mux.Serve(&Message{Topic: string(t)})
	verifReach("served")
	// exactly the matching handlers, in registration order
	k := 0
	for i := 0; i < nf; i++ {
		was := k < len(called) && called[k] == i
		if was {
			k++
		}
		want := false
		if valid[i] {
			want = refMatch(fs[i], t)
		}
		verifAssert(was == want, "C14.mux_invokes_exactly_matching")
	}
	verifAssert(k == len(called), "C14.mux_registration_order")
	// a handler registered after a topic has already been served takes part in the next dispatch
	late := verifFilterBytes("late", verifChoice("latelen", verifParam("maxmf", 2))+1)
	lateErr := mux.Handle(string(late), HandlerFunc(func(m *Message) { called = append(called, 99) }))
	verifAssert((lateErr == nil) == refValidFilter(late), "C14.mux_handle_error_iff_invalid")
	called = nil
	mux.Serve(&Message{Topic: string(t)})
	gotLate := len(called) > 0 && called[len(called)-1] == 99
	wantLate := false
	if lateErr == nil {
		wantLate = refMatch(late, t)
	}
	verifAssert(gotLate == wantLate, "C14.mux_late_handler_dispatched")
	verifReach("served-again")
}

func verifLetterBytes(key string, n int) []byte {
	b := verifBytes(key, n)
	for _, c := range b {
		verifAssume(verifOr(c == 'a', c == 'b'))
	}
	return b
}
