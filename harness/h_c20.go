package mqtt

// C20: handlers behind ServeMux / ServeAsync get private copies.

func verifMsg(pl int) *Message {
	return &Message{
		Topic:   string(verifLetterBytes("topic", 1)),
		ID:      verifNondetU16("id"),
		QoS:     QoS(verifNondetU8("qos")),
		Retain:  verifNondetBool("retain"),
		Dup:     verifNondetBool("dup"),
		Payload: verifBytes("payload", pl),
	}
}

func verifSameMsg(a, b *Message, id string) {
	verifAssert(verifStrEq(a.Topic, b.Topic), id+"_topic")
	verifAssert(a.ID == b.ID, id+"_id")
	verifAssert(a.QoS == b.QoS, id+"_qos")
	verifAssert(a.Retain == b.Retain, id+"_retain")
	verifAssert(a.Dup == b.Dup, id+"_dup")
	verifAssert(verifBytesEq(a.Payload, b.Payload), id+"_payload")
}

func verifMutate(m *Message) {
	m.Topic = "mutated"
	m.ID ^= 0xFFFF
	m.QoS ^= 3
	m.Retain = !m.Retain
	m.Dup = !m.Dup
	for i := range m.Payload {
		m.Payload[i] ^= 0xFF
	}
	m.Payload = append(m.Payload, 0xEE)
}

func VerifH_C20_Mux() {
	pl := verifChoice("plen", 4)
	nilPayload := false
	orig := verifMsg(pl)
	if pl == 0 && verifChoice("nil", 2) == 1 {
		orig.Payload = nil
		nilPayload = true
	}
	_ = nilPayload
	// the caller's payload may be a window of a larger buffer (spare capacity behind it): a handler that
	// appends to its copy must not write into the caller's buffer
	var backing []byte
	var beyond byte
	if !nilPayload && verifChoice("sparecap", 2) == 1 {
		backing = append(append([]byte{}, orig.Payload...), verifNondetU8("beyond"), 0)
		beyond = backing[pl]
		orig.Payload = backing[:pl]
	}
	// pristine copy made by the harness, never handed out
	keep := &Message{Topic: orig.Topic, ID: orig.ID, QoS: orig.QoS, Retain: orig.Retain, Dup: orig.Dup, Payload: append([]byte{}, orig.Payload...)}
	nh := verifChoice("handlers", 3) + 1 // 1, 2 or 3 matching handlers
	mux := &ServeMux{}
	seen := 0
	var handed []*Message
	for i := 0; i < nh; i++ {
		filter := "#"
		if i == 1 {
			filter = "+"
		}
		mux.Handle(filter, HandlerFunc(func(m *Message) {
			seen++
			verifSameMsg(m, keep, "C20.mux_handler_sees_original")
			verifAssert(m != orig, "C20.mux_handler_gets_copy")
			verifMutate(m)
			handed = append(handed, m) // the handler keeps its copy beyond the call (e.g. hands it to a worker)
		}))
	}
	mux.Serve(orig)
	verifReach("served")
	verifAssert(seen == nh, "C20.mux_all_handlers_ran")
	for i := range handed {
		for j := i + 1; j < len(handed); j++ {
			verifAssert(handed[i] != handed[j], "C20.mux_each_handler_own_object")
		}
		// still exactly as its handler left it: not rewritten for a later handler
		verifAssert(verifStrEq(handed[i].Topic, "mutated"), "C20.mux_kept_copy_not_rewritten")
		verifAssert(handed[i].ID == keep.ID^0xFFFF, "C20.mux_kept_copy_not_rewritten")
	}
	verifSameMsg(orig, keep, "C20.mux_caller_message_unchanged")
	if backing != nil {
		verifReach("spare-capacity")
		verifAssert(backing[pl] == beyond, "C20.mux_callers_buffer_untouched")
	}
	// a later message is not affected either
	later := &Message{Topic: keep.Topic, ID: keep.ID, QoS: keep.QoS, Retain: keep.Retain, Dup: keep.Dup, Payload: append([]byte{}, keep.Payload...)}
	mux.Serve(later)
	verifSameMsg(later, keep, "C20.mux_later_message_unchanged")
}

func VerifH_C20_Async() {
	pl := verifChoice("plen", 3)
	orig := verifMsg(pl)
	var backing []byte
	var beyond byte
	if verifChoice("sparecap", 2) == 1 {
		backing = append(append([]byte{}, orig.Payload...), verifNondetU8("beyond"), 0)
		beyond = backing[pl]
		orig.Payload = backing[:pl]
	}
	keep := &Message{Topic: orig.Topic, ID: orig.ID, QoS: orig.QoS, Retain: orig.Retain, Dup: orig.Dup, Payload: append([]byte{}, orig.Payload...)}
	ran := 0
	done := make(chan struct{}, 2)
	h := &ServeAsync{Handler: HandlerFunc(func(m *Message) {
		verifSameMsg(m, keep, "C20.async_handler_sees_original")
		verifMutate(m)
		verifLock()
		ran++
		verifUnlock()
		done <- struct{}{}
	})}
	h.Serve(orig)
	// the caller mutates its own message right after Serve returned; the goroutine may run before or after
	if verifChoice("callermutates", 2) == 1 {
		for i := range orig.Payload {
			orig.Payload[i] ^= 0x55
		}
		orig.Topic = "x"
	} else {
		<-done
		verifSameMsg(orig, keep, "C20.async_caller_message_unchanged")
		done <- struct{}{}
	}
	<-done
	if backing != nil {
		verifAssert(backing[pl] == beyond, "C20.async_callers_buffer_untouched")
	}
	verifReach("async-ran")
	verifLock()
	verifAssert(ran == 1, "C20.async_handler_ran_once")
	verifUnlock()
}
