package mqtt

// C07 (d): identifier reuse.  Request A (any kind) completes normally with identifier X; a later
// publish B carries the same identifier X (the caller put it on the message, or the counter wrapped).
// While B waits, acknowledgements of other kinds carrying X arrive (duplicates of A's acknowledgements
// or unsolicited ones): they neither complete nor disturb B, which completes on its own acknowledgement(s).

import "context"

func VerifH_C07_Reuse() {
	conn := newVconn("c0")
	cli := &BaseClient{Transport: conn}
	verifSetRand(100)
	first := true
	phaseB := false
	var idA uint16
	stales := [][]byte{nil, {0x40, 2}, {0x50, 2}, {0x70, 2}, {0x90, 3}, {0xB0, 2}}
	step := 0
	conn.onWrite = func(c *vconn, p []byte) error {
		var resp []byte
		if first {
			first = false
			resp = []byte{0x20, 2, 0, 0}
		} else if d := refDecode(p); d.ok {
			if !phaseB {
				idA = d.id
				resp = c07Answer(d)
			} else {
				right := c07Answer(d)
				step++
				k := verifChoice("stale"+string(rune('0'+step)), len(stales))
				if s := stales[k]; s != nil && right != nil && s[0] != right[0] {
					st := append([]byte{}, s...)
					st = append(st, byte(d.id>>8), byte(d.id))
					if s[0] == 0x90 {
						st = append(st, 0)
					}
					verifEvent("stale(" + pktName(s[0]>>4) + ")")
					resp = append(resp, st...)
				}
				resp = append(resp, right...)
			}
		}
		if resp != nil {
			c.rbuf = append(c.rbuf, resp...)
			c.nInjected += len(resp)
			c.signalLocked = true
		}
		return nil
	}
	_, cerr := cli.Connect(context.Background(), "cid")
	verifAssert(cerr == nil, "C07.harness_connect")
	kindA := c11Pub1 + verifChoice("kindA", 4)
	var errA error
	switch kindA {
	case c11Pub1:
		errA = cli.Publish(context.Background(), &Message{Topic: "t", QoS: QoS1, ID: 7, Payload: []byte{1}})
	case c11Pub2:
		errA = cli.Publish(context.Background(), &Message{Topic: "t", QoS: QoS2, ID: 7, Payload: []byte{1}})
	default:
		errA = c11Call(cli, context.Background(), kindA)
	}
	verifAssert(errA == nil, "C07.first_request_completes")
	verifEvent("A-returned")
	phaseB = true
	qosB := QoS1
	if verifChoice("qosB", 2) == 1 {
		qosB = QoS2
	}
	doneB := false
	verifOnQuiescence(func() {
		verifReach("end")
		verifAssert(doneB, "C07.request_reusing_identifier_completes")
		cli.Close()
	})
	errB := cli.Publish(context.Background(), &Message{Topic: "t", QoS: qosB, ID: idA, Payload: []byte{2}})
	doneB = true
	verifEvent("B-returned")
	verifAssert(errB == nil, "C07.request_reusing_identifier_not_disturbed")
}
