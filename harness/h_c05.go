package mqtt

// C05 (a): remainingLength(n) for a free 64-bit n in [0, 268435455] equals the
// spec's minimal variable-length encoding and decodes back to n.

func refRLDecode(b []byte) (int, bool) {
	// OASIS MQTT 3.1.1 §2.2.3 decoding algorithm
	multiplier := 1
	value := 0
	i := 0
	for {
		if i >= len(b) {
			return 0, false
		}
		enc := b[i]
		i++
		value += int(enc&127) * multiplier
		if enc&128 == 0 {
			break
		}
		multiplier *= 128
		if multiplier > 128*128*128 {
			return 0, false
		}
	}
	if i != len(b) {
		return 0, false
	}
	return value, true
}

func refRLLen(n int) int {
	switch {
	case n < 128:
		return 1
	case n < 16384:
		return 2
	case n < 2097152:
		return 3
	}
	return 4
}

func VerifH_C05_RemainingLength() {
	n := verifNondetInt("n")
	verifAssume(verifAnd(n >= 0, n <= 268435455))
	b := remainingLength(n)
	verifReach("encoded")
	verifAssert(len(b) == refRLLen(n), "C05.rl_minimal_length")
	v, ok := refRLDecode(b)
	verifAssert(ok, "C05.rl_decodable")
	verifAssert(v == n, "C05.rl_roundtrip")
}
