package mqtt

import "errors"

// C05 (a): remainingLength(n) for a free 64-bit n in [0, 268435455] equals the
// spec's minimal variable-length encoding and decodes back to n.

func refRLDecode(b []byte) (int, bool) {
	// OASIS MQTT 3.1.1 §2.2.3 decoding algorithm
	multiplier := 1
	value := 0
	i := 0
	for {
		if i >= len(b) {
			return 0, false
		}
		enc := b[i]
		i++
		value += int(enc&127) * multiplier
		if enc&128 == 0 {
			break
		}
		multiplier *= 128
		if multiplier > 128*128*128 {
			return 0, false
		}
	}
	if i != len(b) {
		return 0, false
	}
	return value, true
}

func refRLLen(n int) int {
	switch {
	case n < 128:
		return 1
	case n < 16384:
		return 2
	case n < 2097152:
		return 3
	}
	return 4
}

func VerifH_C05_RemainingLength() {
	n := verifNondetInt("n")
	verifAssume(verifAnd(n >= 0, n <= 268435455))
	b := remainingLength(n)
	verifReach("encoded")
	verifAssert(len(b) == refRLLen(n), "C05.rl_minimal_length")
	v, ok := refRLDecode(b)
	verifAssert(ok, "C05.rl_decodable")
	verifAssert(v == n, "C05.rl_roundtrip")
}

// C05 (c): pack = type ‖ RL(Σ len) ‖ concatenation of the parts.
func VerifH_C05_Pack() {
	typ := verifNondetU8("typ")
	np := verifChoice("parts", 4)
	var parts [][]byte
	var all []byte
	for i := 0; i < np; i++ {
		l := verifChoice("len", 4)
		p := verifBytes("b", l)
		parts = append(parts, p)
		all = append(all, p...)
	}
	got := pack(typ, parts...)
	verifReach("packed")
	verifAssert(verifBytesEq(got, refPacketBytes(typ, all)), "C05.pack_layout")
}

func verifPublishCheck(m *Message, want refPacket, b []byte, tag string) {
	p := refDecode(b)
	verifAssert(p.ok, "C05.publish_wellformed"+tag)
	if !p.ok {
		return
	}
	verifAssert(p.typ == 3, "C05.publish_type"+tag)
	verifAssert(refFlagsOK(p), "C05.publish_flags_legal"+tag)
	verifAssert((p.flags>>1)&3 == byte(m.QoS), "C05.publish_qos"+tag)
	verifAssert((p.flags&0x08 != 0) == m.Dup, "C05.publish_dup"+tag)
	verifAssert((p.flags&0x01 != 0) == m.Retain, "C05.publish_retain"+tag)
	verifAssert(verifBytesEq(p.topic, []byte(m.Topic)), "C05.publish_topic"+tag)
	verifAssert(verifBytesEq(p.payload, m.Payload), "C05.publish_payload"+tag)
	if m.QoS > 0 {
		verifAssert(p.id == m.ID, "C05.publish_id"+tag)
	}
}

// C05 (d): PUBLISH carries exactly the requested fields; id present iff QoS>0.
func VerifH_C05_Publish() {
	tl := verifChoice("topiclen", 3) + 1
	pl := verifChoice("payloadlen", 4)
	m := &Message{
		Topic:   string(verifBytes("topic", tl)),
		ID:      verifNondetU16("id"),
		QoS:     QoS(verifNondetU8("qos")),
		Retain:  verifNondetBool("retain"),
		Dup:     verifNondetBool("dup"),
		Payload: verifBytes("payload", pl),
	}
	verifAssume(m.QoS <= 2)
	b := (&pktPublish{Message: m}).Pack()
	verifReach("packed")
	// id present iff QoS>0: total length tells
	want := 1 + 1 + 2 + tl + pl
	if m.QoS > 0 {
		want += 2
	}
	verifAssert(len(b) == want, "C05.publish_id_iff_qos")
	verifPublishCheck(m, refPacket{}, b, "")
}

// C05 (d'): bodies around the remaining-length boundaries.
func VerifH_C05_PublishBig() {
	sizes := []int{127, 128, 16383, 16384}
	if verifParam("huge", 0) == 1 {
		sizes = []int{2097151, 2097152}
	}
	body := sizes[verifChoice("size", len(sizes))]
	qos := QoS(verifNondetU8("qos"))
	verifAssume(qos <= 2)
	overhead := 2 + 1
	if qos > 0 {
		overhead += 2
	}
	payload := make([]byte, body-overhead)
	payload[0] = verifNondetU8("first")
	payload[len(payload)-1] = verifNondetU8("last")
	m := &Message{Topic: string(verifBytes("topic", 1)), ID: verifNondetU16("id"), QoS: qos, Payload: payload}
	b := (&pktPublish{Message: m}).Pack()
	verifReach("packed")
	verifAssert(len(b) == 1+len(refEncodeRL(body))+body, "C05.publish_big_length")
	verifPublishCheck(m, refPacket{}, b, "_big")
}

// C05 (f): SUBSCRIBE / UNSUBSCRIBE filters and QoS in order, flags nibble 0x2.
func VerifH_C05_Subscribe() {
	n := verifChoice("nsubs", 3) + 1
	var subs []Subscription
	for i := 0; i < n; i++ {
		q := QoS(verifNondetU8("qos"))
		verifAssume(q <= 2)
		subs = append(subs, Subscription{Topic: string(verifBytes("f", verifChoice("flen", 2)+1)), QoS: q})
	}
	id := verifNondetU16("id")
	b := (&pktSubscribe{ID: id, Subscriptions: subs}).Pack()
	verifReach("packed")
	p := refDecode(b)
	verifAssert(p.ok, "C05.subscribe_wellformed")
	if !p.ok {
		return
	}
	verifAssert(verifAnd(p.typ == 8, p.flags == 2), "C05.subscribe_header")
	verifAssert(p.id == id, "C05.subscribe_id")
	verifAssert(len(p.filters) == n, "C05.subscribe_count")
	for i := 0; i < n && i < len(p.filters); i++ {
		verifAssert(verifBytesEq(p.filters[i], []byte(subs[i].Topic)), "C05.subscribe_filter_order")
		verifAssert(p.qoss[i] == byte(subs[i].QoS), "C05.subscribe_qos_order")
	}
}

func VerifH_C05_Unsubscribe() {
	n := verifChoice("n", 3) + 1
	var fs []string
	for i := 0; i < n; i++ {
		fs = append(fs, string(verifBytes("f", verifChoice("flen", 2)+1)))
	}
	id := verifNondetU16("id")
	b := (&pktUnsubscribe{ID: id, Topics: fs}).Pack()
	verifReach("packed")
	p := refDecode(b)
	verifAssert(p.ok, "C05.unsubscribe_wellformed")
	if !p.ok {
		return
	}
	verifAssert(verifAnd(p.typ == 10, p.flags == 2), "C05.unsubscribe_header")
	verifAssert(p.id == id, "C05.unsubscribe_id")
	verifAssert(len(p.filters) == n, "C05.unsubscribe_count")
	for i := 0; i < n && i < len(p.filters); i++ {
		verifAssert(verifBytesEq(p.filters[i], []byte(fs[i])), "C05.unsubscribe_filter_order")
	}
}

// C05 (g): fixed forms.
func VerifH_C05_Acks() {
	id := verifNondetU16("id")
	check := func(b []byte, typ, flags byte, tag string) {
		p := refDecode(b)
		verifAssert(p.ok, "C05.ack_wellformed_"+tag)
		if p.ok {
			verifAssert(verifAnd(p.typ == typ, p.flags == flags), "C05.ack_header_"+tag)
			verifAssert(p.id == id, "C05.ack_id_"+tag)
		}
	}
	check((&pktPubAck{ID: id}).Pack(), 4, 0, "puback")
	check((&pktPubRec{ID: id}).Pack(), 5, 0, "pubrec")
	check((&pktPubRel{ID: id}).Pack(), 6, 2, "pubrel")
	check((&pktPubComp{ID: id}).Pack(), 7, 0, "pubcomp")
	verifReach("acks")
	verifAssert(verifBytesEq(pack(packetPingReq.b()), []byte{0xC0, 0}), "C05.pingreq_form")
	verifAssert(verifBytesEq(pack(packetDisconnect.b()), []byte{0xE0, 0}), "C05.disconnect_form")
}

// C05 (e): CONNECT through the public API.  The context is already cancelled,
// so Connect writes the CONNECT packet and returns; the bytes are then read
// back with the reference decoder.
func VerifH_C05_Connect() {
	conn := newVconn("c0")
	cli := &BaseClient{Transport: conn}
	ctx, cancel := contextCancelled()
	defer cancel()

	clean := verifNondetBool("clean")
	keep := verifNondetU16("keepalive")
	var opts []ConnectOption
	opts = append(opts, WithCleanSession(clean), WithKeepAlive(keep))
	level := byte(4)
	if verifChoice("level", 2) == 1 {
		level = verifNondetU8("level")
		opts = append(opts, WithProtocolLevel(ProtocolLevel(level)))
	}
	var will *Message
	if verifChoice("will", 2) == 1 {
		will = &Message{
			Topic:   string(verifBytes("wtopic", 1)),
			QoS:     QoS(verifNondetU8("wqos")),
			Retain:  verifNondetBool("wretain"),
			Payload: verifBytes("wpayload", verifChoice("wplen", 2)),
		}
		verifAssume(will.QoS <= 2)
		opts = append(opts, WithWill(will))
	}
	user := string(verifBytes("user", verifChoice("userlen", 2)))
	pass := string(verifBytes("pass", verifChoice("passlen", 2)))
	if verifChoice("cred", 2) == 1 {
		opts = append(opts, WithUserNamePassword(user, pass))
	} else {
		user, pass = "", ""
	}
	id := string(verifBytes("clientid", verifChoice("idlen", 2)+1))
	_, err := cli.Connect(ctx, id, opts...)
	verifAssert(err != nil, "C05.connect_harness_ctx")
	ws := conn.okWrites()
	verifAssert(len(ws) == 1, "C05.connect_one_packet")
	conn.Close()
	if len(ws) != 1 {
		return
	}
	verifReach("connect-written")
	p := refDecode(ws[0])
	verifAssert(p.ok, "C05.connect_wellformed")
	if !p.ok {
		return
	}
	verifAssert(p.typ == 1, "C05.connect_type")
	verifAssert(verifBytesEq(p.protoName, []byte("MQTT")), "C05.connect_protocol_name")
	verifAssert(p.level == level, "C05.connect_level")
	verifAssert(p.keepAlive == keep, "C05.connect_keepalive")
	verifAssert(verifBytesEq(p.clientID, []byte(id)), "C05.connect_clientid")
	verifAssert((p.cflags&0x02 != 0) == clean, "C05.connect_clean_session")
	verifAssert(refConnectFlagsOK(p.cflags), "C05.connect_flags_wellformed")
	verifAssert((p.cflags&0x04 != 0) == (will != nil), "C05.connect_will_flag")
	if will != nil && p.cflags&0x04 != 0 {
		verifAssert((p.cflags>>3)&3 == byte(will.QoS), "C05.connect_will_qos")
		verifAssert((p.cflags&0x20 != 0) == will.Retain, "C05.connect_will_retain")
		verifAssert(verifBytesEq(p.willTopic, []byte(will.Topic)), "C05.connect_will_topic")
		verifAssert(verifBytesEq(p.willMsg, will.Payload), "C05.connect_will_payload")
	}
	// credentials: what was asked for is carried, with matching flags.  A flag may be
	// set for an empty string (zero-length fields are legal), never the other way round.
	verifAssert(verifImplies(user != "", p.cflags&0x80 != 0), "C05.connect_user_flag")
	verifAssert(verifImplies(pass != "", p.cflags&0x40 != 0), "C05.connect_pass_flag")
	if p.cflags&0x80 != 0 {
		verifAssert(verifBytesEq(p.user, []byte(user)), "C05.connect_user")
	}
	if p.cflags&0x40 != 0 {
		verifAssert(verifBytesEq(p.pass, []byte(pass)), "C05.connect_pass")
	}
}

// C05 (h): conversely, PUBLISH packets from the broker are delivered with exactly the encoded
// topic, payload and flags — also a QoS 2 message that is parked until its PUBREL while
// further packets are read.
func VerifH_C05_Inbound() {
	var log []c04Event
	conn := &c04Conn{log: &log}
	cli := &BaseClient{Transport: conn}
	cli.init()
	var got []*Message
	cli.Handle(HandlerFunc(func(m *Message) { got = append(got, m) }))
	type in struct {
		topic, payload []byte
		id             uint16
		qos            byte
		dup, retain    bool
	}
	mk := func(qos byte) in {
		return in{topic: verifLetterBytes("topic", verifChoice("tlen", 2)+1), payload: verifBytes("payload", verifChoice("plen", 3)),
			id: verifNondetU16("id"), qos: qos, dup: verifNondetBool("dup"), retain: verifNondetBool("retain")}
	}
	a := mk(2)
	b := mk(byte(verifChoice("qosb", 2)))
	if b.qos == 0 {
		b.dup = false
	}
	add := func(p []byte) {
		conn.starts = append(conn.starts, len(conn.stream))
		conn.stream = append(conn.stream, p...)
	}
	add(refEncodePublish(a.topic, a.id, a.qos, a.dup, a.retain, a.payload))
	add(refEncodePublish(b.topic, b.id, b.qos, b.dup, b.retain, b.payload))
	add(refEncodeAck(0x62, a.id))
	_ = cli.serve()
	verifReach("served")
	verifAssert(len(got) == 2, "C05.inbound_both_delivered")
	if len(got) != 2 {
		return
	}
	chk := func(m *Message, w in, tag string) {
		verifAssert(verifBytesEq([]byte(m.Topic), w.topic), "C05.inbound_topic"+tag)
		verifAssert(verifBytesEq(m.Payload, w.payload), "C05.inbound_payload"+tag)
		verifAssert(byte(m.QoS) == w.qos, "C05.inbound_qos"+tag)
		verifAssert(m.Dup == w.dup, "C05.inbound_dup"+tag)
		verifAssert(m.Retain == w.retain, "C05.inbound_retain"+tag)
		if w.qos > 0 {
			verifAssert(m.ID == w.id, "C05.inbound_id"+tag)
		}
	}
	chk(got[0], b, "")
	chk(got[1], a, "_parked_qos2")
}

// C05 (b): the remaining-length decoder of readPacket accepts every minimal encoding up to the protocol
// maximum and asks for exactly that many body bytes (n is a free 64-bit value; the allocation is cut).
func VerifH_C05_ReadLength() {
	n := verifNondetInt("n")
	verifAssume(verifAnd(n >= 0, n <= 268435455))
	hdr := append([]byte{0x30}, refEncodeRL(n)...)
	verifExpectMakeEq("readPacket", n)
	_, _, _, err := readPacket(&sliceReader{b: hdr})
	verifReach("read")
	// with no body bytes available the only legitimate outcomes are success for n == 0 and a short read otherwise
	verifAssert(!errors.Is(err, ErrInvalidPacketLength), "C05.inbound_length_accepted_up_to_max")
	if n == 0 {
		verifAssert(err == nil, "C05.inbound_empty_body")
	}
}

// C05 (i): identifiers the client itself puts on PUBLISH (QoS>0) / SUBSCRIBE / UNSUBSCRIBE packets are
// well-formed, i.e. never 0 [MQTT-2.3.1-1], whatever the age of the connection: the identifier counter
// starts from an arbitrary 32-bit value.  The request is issued through the public API with an already
// cancelled context (the packet is written, the call returns) and the wire is read back.
func VerifH_C05_ClientIDs() {
	conn := newVconn("c0")
	conn.answerConnect([]byte{0x20, 2, 0, 0})
	cli := &BaseClient{Transport: conn}
	if _, err := cli.Connect(contextBackground(), "cid"); err != nil {
		verifAssert(false, "C05.harness_connect")
		return
	}
	cli.idLast = verifNondetU32("idlast")
	ctx, cancel := contextCancelled()
	defer cancel()
	n0 := len(conn.okWrites())
	kind := verifChoice("req", 4)
	switch kind {
	case 0:
		_ = cli.Publish(ctx, &Message{Topic: "t", QoS: QoS1, Payload: []byte{1}})
	case 1:
		_ = cli.Publish(ctx, &Message{Topic: "t", QoS: QoS2, Payload: []byte{1}})
	case 2:
		_, _ = cli.Subscribe(ctx, Subscription{Topic: "a", QoS: QoS1})
	case 3:
		_ = cli.Unsubscribe(ctx, "a")
	}
	w := conn.okWrites()
	verifAssert(len(w) == n0+1, "C05.request_written")
	if len(w) != n0+1 {
		return
	}
	p := refDecode(w[n0])
	verifAssert(p.ok, "C05.request_wellformed")
	verifReach("request-written")
	verifAssert(p.id != 0, "C05.client_chosen_identifier_nonzero")
}
