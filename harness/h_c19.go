package mqtt

// C19: error causes stay inspectable through the library's wrapping.

import (
	"time"
	"context"
	"errors"
	"fmt"
	"io"
)

// a foreign error type exposing its cause only through an exported Err field (no Unwrap):
// (*Error).Is looks through it by reflection.
type verifFieldErr struct {
	Err error
}

func (e *verifFieldErr) Error() string { return "fielderr" }

// a foreign value-type error without Unwrap or Err: the chain ends here.
type verifOpaqueErr struct{ n int }

func (e verifOpaqueErr) Error() string { return "opaque" }

func verifSentinels() []error {
	return []error{
		ErrClosedTransport, ErrInvalidPacket, ErrInvalidPacketLength, ErrPayloadLenExceeded, ErrInvalidQoS,
		ErrNotConnected, ErrInvalidRune, ErrInvalidSubAck, ErrPingTimeout, ErrClosedClient, ErrConnectionFailed,
		ErrInvalidTopicFilter, ErrKeepAliveDisabled, context.Canceled, context.DeadlineExceeded, io.EOF,
	}
}

func VerifH_C19_Chain() {
	sent := verifSentinels()
	leafIdx := verifChoice("leaf", len(sent)+1)
	var leaf error
	if leafIdx < len(sent) {
		leaf = sent[leafIdx]
	} else {
		leaf = verifOpaqueErr{1}
	}
	depth := verifChoice("depth", verifParam("maxdepth", 3)+1)
	err := leaf
	underLib := false // is there a library *Error above the current position (built inside-out, so track per link)
	// links are applied inside-out: link 0 wraps the leaf
	kinds := make([]int, depth)
	for i := 0; i < depth; i++ {
		kinds[i] = verifChoice("link", 5)
	}
	// the reflect-only link is inspectable only when a library *Error sits somewhere above it
	visible := true
	for i := 0; i < depth; i++ {
		switch kinds[i] {
		case 0:
			err = wrapError(err, "w")
		case 1:
			err = wrapErrorWithRetry(err, func(context.Context, *BaseClient) error { return nil }, "wr")
		case 2:
			err = fmt.Errorf("ctx: %w", err)
		case 3:
			err = &ConnectionError{Err: err, Code: ConnectionReturnCode(verifNondetU8("code"))}
		case 4:
			err = &verifFieldErr{Err: err}
			// needs an *Error (kind 0/1 applied to a non-EOF, non-nil error) further out
			above := false
			for j := i + 1; j < depth; j++ {
				if kinds[j] == 0 || kinds[j] == 1 {
					above = true
				}
			}
			if !above {
				visible = false
			}
		}
	}
	_ = underLib
	verifReach("built")
	// io.EOF passes through the library wrappers unwrapped
	if leaf == io.EOF && depth > 0 && (kinds[0] == 0 || kinds[0] == 1) {
		inner := wrapError(io.EOF, "x")
		verifAssert(inner == io.EOF, "C19.eof_passthrough")
	}
	verifAssert(wrapError(nil, "x") == nil, "C19.wrap_nil_is_nil")
	if !visible {
		// a foreign wrapper without Unwrap outside every library wrapper: outside the claim
		verifReach("foreign-outermost")
		return
	}
	for ti, target := range sent {
		got := errors.Is(err, target)
		want := leafIdx == ti
		if want {
			verifAssert(got, "C19.is_finds_sentinel")
		} else {
			verifAssert(!got, "C19.is_no_false_sentinel")
		}
	}
	verifAssert(!errors.Is(err, nil), "C19.is_nil_target")
	// errors.As reaches a *ConnectionError link wherever it sits in the chain
	hasCE, hasFieldLink := false, false
	for i := 0; i < depth; i++ {
		if kinds[i] == 3 {
			hasCE = true
		}
		if kinds[i] == 4 {
			hasFieldLink = true // errors.As cannot look through a link without Unwrap; only (*Error).Is does
		}
	}
	if !hasFieldLink {
		var ce *ConnectionError
		verifAssert(errors.As(err, &ce) == hasCE, "C19.as_finds_connection_error")
	}
	// the outermost library wrapper keeps what it wraps: a retry wrapper yields a retry handle unless it
	// was handed nil or bare io.EOF
	if depth > 0 && kinds[depth-1] == 1 {
		_, isRetry := err.(ErrorWithRetry)
		innerIsBareEOF := leaf == io.EOF
		for i := 0; i < depth-1; i++ {
			if kinds[i] >= 2 {
				innerIsBareEOF = false // wrapped by a non-library link: no longer the bare sentinel
			}
		}
		if !innerIsBareEOF {
			verifAssert(isRetry, "C19.retry_wrapper_keeps_handle")
		}
	}
	// (*Error).Is called directly agrees
	if e, ok := err.(*Error); ok {
		for ti, target := range sent {
			verifAssert(e.Is(target) == (leafIdx == ti), "C19.error_is_method")
		}
	}
}

// An expired response timeout is identifiable as *RequestTimeoutError through the wrapping.
func VerifH_C19_Timeout() {
	rc := &RetryClient{ResponseTimeout: 1000}
	ctx, cancel := rc.requestContext(context.Background())
	defer cancel()
	// let the deadline pass
	<-ctx.Done()
	e := ctx.Err()
	verifReach("expired")
	var rte *RequestTimeoutError
	verifAssert(errors.As(e, &rte), "C19.timeout_is_request_timeout_error")
	depth := verifChoice("depth", 3)
	w := e
	for i := 0; i < depth; i++ {
		if verifChoice("link", 2) == 0 {
			w = wrapError(w, "waiting")
		} else {
			w = wrapErrorWithRetry(w, func(context.Context, *BaseClient) error { return nil }, "waiting")
		}
	}
	var rte2 *RequestTimeoutError
	verifAssert(errors.As(w, &rte2), "C19.wrapped_timeout_is_request_timeout_error")
}

// The caller's own context: a call made through the retrying client (Ping takes the caller's context
// straight to the base client) that ends because the caller cancelled, or because the caller's own
// deadline passed, reports that context's error — findable with errors.Is through the wrapping — whether
// or not a response timeout is configured; and it is a RequestTimeoutError only when the configured
// response timeout is what expired.
func VerifH_C19_CallerContext() {
	conn := newVconn("c0")
	conn.answerConnect([]byte{0x20, 2, 0, 0})
	cli := &BaseClient{Transport: conn}
	_, cerr := cli.Connect(context.Background(), "cid")
	verifAssert(cerr == nil, "C19.harness_connect")
	rc := &RetryClient{cli: cli}
	unit := int64(1000000000)
	if !verifSymbolic() {
		unit = 20000000
	}
	switch verifChoice("responsetimeout", 3) {
	case 1:
		rc.ResponseTimeout = time.Duration(10 * unit) // configured, does not expire first
	case 2:
		rc.ResponseTimeout = time.Duration(unit) // configured, expires first
	}
	how := verifChoice("caller", 3) // 0 cancels, 1 own deadline, 2 waits (only the response timeout can end the call)
	if how == 2 && rc.ResponseTimeout == 0 {
		return
	}
	ctx, cancel := context.WithCancel(context.Background())
	callerEnded := false
	var cancelledAt int64
	switch how {
	case 0:
		go func() {
			verifPause()
			verifLock()
			callerEnded = true
			cancelledAt = verifNow()
			verifUnlock()
			cancel()
		}()
	case 1:
		var c2 context.CancelFunc
		ctx, c2 = context.WithTimeout(ctx, time.Duration(3*unit))
		defer c2()
	}
	defer cancel()
	err := rc.Ping(ctx) // the broker never answers
	verifReach("ping-returned")
	if how == 0 {
		verifLock()
		ce, ca := callerEnded, cancelledAt
		verifUnlock()
		if ce {
			// C11: the call returns as soon as its context is cancelled, not when the response timeout expires later
			prompt := verifNow() == ca // no virtual time passes between the cancellation and the return
			if !verifSymbolic() {
				prompt = verifNow()-ca < 5*unit // native replay: well before the response timeout (10 units)
			}
			verifAssert(prompt, "C11.ping_returns_promptly_after_cancel")
		}
	}
	verifAssert(err != nil, "C19.unanswered_ping_reports_error")
	var rte *RequestTimeoutError
	isRTE := errors.As(err, &rte)
	verifLock()
	cancelledFirst := callerEnded
	verifUnlock()
	// which of the two ended the call: the response timeout, unless the caller's context ended before it expired
	timeoutFirst := rc.ResponseTimeout != 0 && (how == 2 || how == 1 && rc.ResponseTimeout < time.Duration(3*unit) || how == 0 && !cancelledFirst)
	if timeoutFirst {
		verifReach("response-timeout")
		verifAssert(isRTE, "C19.expired_response_timeout_is_request_timeout_error")
	} else {
		verifReach("caller-context")
		verifAssert(errors.Is(err, ctx.Err()), "C19.caller_context_error_inspectable")
		verifAssert(!isRTE, "C19.request_timeout_error_only_for_response_timeout")
	}
	cli.Close()
}

// The error that ended a connection stays inspectable on the client: after a protocol violation by the
// broker errors.Is(Err(), ErrInvalidPacket) holds, after a peer close Err() is io.EOF itself -- also when
// closing the transport during clean-up fails with an error of its own.
func VerifH_C19_ConnEnd() {
	conn := newVconn("c0")
	conn.answerConnect([]byte{0x20, 2, 0, 0})
	if verifChoice("closeerr", 2) == 1 {
		conn.closeErr = errors.New("transport: failed to send close notification")
	}
	cli := &BaseClient{Transport: conn}
	var stateErr error
	cli.ConnState = func(s ConnState, err error) {
		if s == StateClosed {
			stateErr = err
		}
	}
	_, cerr := cli.Connect(context.Background(), "cid")
	verifAssert(cerr == nil, "C19.harness_connect")
	cause := verifChoice("cause", 3)
	switch cause {
	case 0:
		conn.peerClose()
	case 1:
		conn.inject([]byte{0xF0, 0}) // reserved packet type
	case 2:
		conn.inject([]byte{0x82, 0x80, 0x80, 0x80, 0x80, 0x01}) // remaining length of five bytes
	}
	<-cli.Done()
	verifReach("ended")
	err := cli.Err()
	switch cause {
	case 0:
		verifAssert(err == io.EOF, "C19.eof_passthrough_on_peer_close")
	case 1:
		verifAssert(errors.Is(err, ErrInvalidPacket), "C19.is_finds_sentinel_after_protocol_violation")
	case 2:
		verifAssert(errors.Is(err, ErrInvalidPacketLength), "C19.is_finds_sentinel_after_protocol_violation")
	}
	verifAssert(stateErr == err, "C19.state_callback_error_is_err")
}
