package mqtt

// C07 (c): acknowledgements of abandoned requests.  Request A is given up by its caller (context
// cancelled while it waits); the broker's late acknowledgement(s) for A arrive afterwards; then
// request B is issued and answered.  The late acknowledgements are unsolicited by then: they
// neither complete nor disturb B.

import "context"

func VerifH_C07_Abandoned() {
	conn := newVconn("c0")
	cli := &BaseClient{Transport: conn}
	verifSetRand(100)
	first := true
	answering := false
	var unanswered []refPacket
	conn.onWrite = func(c *vconn, p []byte) error {
		var resp []byte
		if first {
			first = false
			resp = []byte{0x20, 2, 0, 0}
		} else if d := refDecode(p); d.ok {
			if !answering {
				unanswered = append(unanswered, d)
			} else {
				resp = c07Answer(d)
			}
		}
		if resp != nil {
			c.rbuf = append(c.rbuf, resp...)
			c.nInjected += len(resp)
			c.signalLocked = true
		}
		return nil
	}
	_, cerr := cli.Connect(context.Background(), "cid")
	verifAssert(cerr == nil, "C07.harness_connect")
	kindA := c11Pub1 + verifChoice("kindA", 4)
	kindB := c11Pub1 + verifChoice("kindB", 4)
	stage := 0
	if kindA == c11Pub2 {
		stage = verifChoice("stageA", 2) // given up while waiting for PUBREC / for PUBCOMP
	}
	ctxA, cancelA := context.WithCancel(context.Background())
	doneB := false
	var errB error
	go func() {
		verifPause() // A is blocked
		if stage == 1 {
			// PUBREC arrives, A sends PUBREL and waits for PUBCOMP
			verifLock()
			d := unanswered[0]
			unanswered = unanswered[1:]
			verifUnlock()
			conn.inject(c07Answer(d))
			verifPause()
		}
		verifEvent("cancel(A)")
		cancelA()
		verifPause() // A has returned
		// the late acknowledgements of everything A sent, possibly more than once
		verifLock()
		late := unanswered
		unanswered = nil
		answering = true
		verifUnlock()
		for rep := 0; rep <= verifChoice("repeat", 2); rep++ {
			for _, d := range late {
				verifEvent("late-ack(" + pktName(d.typ) + ")")
				conn.inject(c07Answer(d))
			}
		}
		if verifChoice("settle", 2) == 1 {
			verifPause()
		}
		errB = c11Call(cli, context.Background(), kindB)
		doneB = true
		verifEvent("B-returned")
	}()
	verifOnQuiescence(func() {
		verifReach("end")
		verifAssert(doneB, "C07.later_request_completes_after_late_acks")
		if doneB {
			verifAssert(errB == nil, "C07.later_request_not_disturbed_by_late_acks")
		}
		cli.Close()
	})
	errA := c11Call(cli, ctxA, kindA)
	verifAssert(errA != nil, "C07.abandoned_request_reports_error")
	verifEvent("A-returned")
}
