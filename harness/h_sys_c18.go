package mqtt

// C18: with a response timeout, a silent broker cannot stall the client.

import (
	"errors"
	"time"
)

func VerifH_SYS_C18() {
	nreq := verifParam("nreq", 1)
	budget := verifParam("faults", 1)
	b := &vbroker{budget: budget, allowDrop: true}
	b.noCuts = verifParam("cuts", 0) == 0
	b.stamp = true
	b.maxDials = 2*budget + 3
	verifSetRand(100)
	T := verifNondetDur("T")
	unit := time.Second
	if verifSymbolic() {
		verifAssume(verifAnd(T > 0, T <= 1<<40))
	} else {
		unit = 10 * time.Millisecond
		T = 30 * time.Millisecond
	}
	var errs []error
	rc := &RetryClient{ResponseTimeout: T}
	withOnError := verifChoice("onerror", 2) == 0
	if withOnError {
		rc.OnError = func(err error) { verifLock(); errs = append(errs, err); verifUnlock() }
	}
	cli, err := NewReconnectClient(b, WithReconnectWait(unit, 4*unit), WithRetryClient(rc))
	verifAssert(err == nil, "SYS.new_client")
	kinds := []int{rkPub1, rkPub2, rkSub, rkUnsub}
	q2 := verifParam("q2", 0) == 1 // C02 variant: QoS 2 exchanges against both receiver methods, exactly-once oracle
	if q2 {
		kinds = []int{rkPub2, rkPub1}
		b.methodB = verifChoice("q2method", 2) == 1
	}
	s := &sysRun{b: b, cli: cli}
	for i := 0; i < nreq; i++ {
		s.reqs = append(s.reqs, sysReq{tag: i + 1, kind: kinds[verifChoice("kind", len(kinds))]})
	}
	verifOnQuiescence(func() {
		verifReach("quiescent")
		if s.connErr != nil {
			return
		}
		if q2 {
			s.checkC02()
			s.checkC12()
		}
		verifLock()
		defer verifUnlock()
		dropped := false
		for _, at := range b.attempts {
			if at.outcome != 'd' {
				continue
			}
			dropped = true
			verifReach("answer-dropped")
			// that connection was closed no later than T after the request was written
			c := b.conns[at.conn]
			verifAssert(c.closed, "C18.silent_connection_closed")
			if c.closed {
				verifAssert(c.closedAt-at.at <= int64(T), "C18.closed_within_timeout")
			}
			// and a new connection was dialled afterwards
			verifAssert(len(b.conns) > at.conn+1, "C18.redial_after_timeout")
		}
		if dropped && withOnError {
			nrte, ndrop := 0, 0
			for _, e := range errs {
				var rte *RequestTimeoutError
				if errors.As(e, &rte) {
					nrte++
				}
			}
			for _, at := range b.attempts {
				if at.outcome == 'd' {
					ndrop++
				}
			}
			verifAssert(nrte >= 1, "C18.request_timeout_error_reported")
			// first transmissions and retransmissions alike: one report per silently dropped answer
			verifAssert(nrte >= ndrop, "C18.every_timeout_is_a_request_timeout_error")
		}
		for _, r := range s.reqs {
			if r.accepted {
				verifAssert(b.ackRead(r.tag, ackKindOf(r.kind)), "C18.request_not_stalled")
			}
		}
	})
	s.run()
}
