package mqtt

// C13 (a): the keep-alive loop against a stub Client whose Ping outcome per call is a
// choice; interval, timeout and the answer delay are symbolic durations on the virtual clock.

import (
	"context"
	"errors"
	"time"
)

var errC13PingFailed = errors.New("ping failed at once")

type c13Client struct {
	npings   int
	maxPings int
	starts   []int64
	outcome  []int // 0 at once, 1 after delta, 2 never, 3 fails at once
	delta    []time.Duration
	stop     context.CancelFunc
	stopped  bool
}

func (c *c13Client) Connect(ctx context.Context, clientID string, opts ...ConnectOption) (bool, error) {
	return false, nil
}
func (c *c13Client) Disconnect(ctx context.Context) error                { return nil }
func (c *c13Client) Publish(ctx context.Context, message *Message) error { return nil }
func (c *c13Client) Subscribe(ctx context.Context, subs ...Subscription) ([]Subscription, error) {
	return nil, nil
}
func (c *c13Client) Unsubscribe(ctx context.Context, subs ...string) error { return nil }
func (c *c13Client) Handle(Handler)                                      {}

func (c *c13Client) Ping(ctx context.Context) error {
	if c.npings >= c.maxPings {
		// end of the experiment: the harness cancels the parent context
		c.stopped = true
		c.stop()
		return ctx.Err()
	}
	c.npings++
	c.starts = append(c.starts, verifNow())
	k := verifChoice("ping", 4)
	c.outcome = append(c.outcome, k)
	var d time.Duration
	switch k {
	case 0:
		c.delta = append(c.delta, 0)
		verifEvent("ping:atonce")
		return nil
	case 1:
		d = verifNondetDur("delta")
		if verifSymbolic() {
			verifAssume(verifAnd(d > 0, d <= 1<<40))
		} else if d > 200*1000*1000 {
			d = 200 * 1000 * 1000
		}
		c.delta = append(c.delta, d)
		select {
		case <-time.After(d):
			verifEvent("ping:answered")
			return nil
		case <-ctx.Done():
			verifEvent("ping:ctxdone")
			return ctx.Err()
		}
	case 2:
		c.delta = append(c.delta, -1)
		<-ctx.Done()
		verifEvent("ping:never")
		return ctx.Err()
	}
	c.delta = append(c.delta, 0)
	verifEvent("ping:fails")
	return errC13PingFailed
}

func VerifH_C13_KeepAlive() {
	interval := verifNondetDur("interval")
	timeout := verifNondetDur("timeout")
	if verifSymbolic() {
		verifAssume(verifAnd(verifAnd(interval > 0, interval <= 1<<40), verifAnd(timeout > 0, timeout <= 1<<40)))
		if verifParam("timeout_lt_interval", 1) == 1 {
			// a ping is classified before the next tick is due (dropped ticks are outside the claim)
			verifAssume(timeout < interval)
		}
	} else {
		if interval <= 0 || interval > 50*1000*1000 {
			interval = 5 * time.Millisecond
		}
		if timeout <= 0 || timeout > 100*1000*1000 {
			timeout = 20 * time.Millisecond
		}
	}
	ctx, cancel := context.WithCancel(context.Background())
	cli := &c13Client{maxPings: verifParam("pings", 2), stop: cancel}
	userCancelled := false
	if verifChoice("cancel", 2) == 1 {
		go func() {
			verifPause()
			userCancelled = true
			verifEvent("app:cancel")
			cancel()
		}()
	}
	t0 := verifNow()
	err := KeepAlive(ctx, cli, interval, timeout)
	verifReach("returned")
	verifAssert(err != nil, "C13.returns_only_with_error")
	// pings start no earlier than k*interval; exactly k*interval while every earlier ping returned at once
	allAtOnce := true
	for k, s := range cli.starts {
		if verifSymbolic() {
			verifAssert(s-t0 >= int64(interval)*int64(k+1), "C13.ping_every_interval_lower_bound")
			if allAtOnce {
				verifAssert(s-t0 == int64(interval)*int64(k+1), "C13.ping_every_interval_exact")
			}
		}
		if cli.outcome[k] != 0 {
			allAtOnce = false
		}
	}
	// classification of the last ping
	n := len(cli.outcome)
	if userCancelled || cli.stopped {
		verifReach("cancelled")
		// cancelled before the classification: the context's error, not a ping timeout
		if ctx.Err() != nil {
			isTimeout := errors.Is(err, ErrPingTimeout)
			isCtx := errors.Is(err, context.Canceled)
			// a ping that had already timed out or failed before the cancellation may be reported as such:
			// demanded only when the last ping could not have failed on its own
			lastOwn := n > 0 && (cli.outcome[n-1] == 3)
			if !lastOwn && !isTimeout {
				verifAssert(isCtx, "C13.cancel_reports_context_error")
			}
			if n > 0 && cli.outcome[n-1] == 0 {
				verifAssert(!isTimeout, "C13.cancel_is_not_ping_timeout")
			}
		}
		return
	}
	verifAssert(n > 0, "C13.no_spurious_return")
	if n == 0 {
		return
	}
	// every ping but the last succeeded in time (otherwise the loop would have stopped there)
	for k := 0; k+1 < n; k++ {
		ok := cli.outcome[k] == 0 || cli.outcome[k] == 1
		verifAssert(ok, "C13.loop_stops_at_first_failure")
	}
	switch cli.outcome[n-1] {
	case 0:
		verifAssert(false, "C13.keeps_running_while_answered")
	case 1:
		// answered after delta: the loop may stop only if delta >= timeout
		verifReach("late-answer")
		verifAssert(cli.delta[n-1] >= timeout, "C13.keeps_running_while_answered_in_time")
		if cli.delta[n-1] > timeout {
			verifAssert(errors.Is(err, ErrPingTimeout), "C13.late_answer_is_ping_timeout")
		}
	case 2:
		verifReach("silent")
		verifAssert(errors.Is(err, ErrPingTimeout), "C13.silence_is_ping_timeout")
	case 3:
		verifReach("ping-error")
	}
}
