package mqtt

// C13 (a): the keep-alive loop against a stub Client whose Ping outcome per call is a
// choice; interval, timeout and the answer delay are symbolic durations on the virtual clock.

import (
	"context"
	"errors"
	"time"
)

var errC13PingFailed = errors.New("ping failed at once")

type c13Client struct {
	npings   int
	maxPings int
	starts   []int64
	outcome  []int // 0 at once, 1 after delta, 2 never, 3 fails at once
	delta    []time.Duration
	stop     context.CancelFunc
	stopped  bool
}

func (c *c13Client) Connect(ctx context.Context, clientID string, opts ...ConnectOption) (bool, error) {
	return false, nil
}
func (c *c13Client) Disconnect(ctx context.Context) error                { return nil }
func (c *c13Client) Publish(ctx context.Context, message *Message) error { return nil }
func (c *c13Client) Subscribe(ctx context.Context, subs ...Subscription) ([]Subscription, error) {
	return nil, nil
}
func (c *c13Client) Unsubscribe(ctx context.Context, subs ...string) error { return nil }
func (c *c13Client) Handle(Handler)                                      {}

func (c *c13Client) Ping(ctx context.Context) error {
	if c.npings >= c.maxPings {
		// end of the experiment: the harness cancels the parent context
		c.stopped = true
		c.stop()
		return ctx.Err()
	}
	c.npings++
	c.starts = append(c.starts, verifNow())
	k := verifChoice("ping", 4)
	c.outcome = append(c.outcome, k)
	var d time.Duration
	switch k {
	case 0:
		c.delta = append(c.delta, 0)
		verifEvent("ping:atonce")
		return nil
	case 1:
		d = verifNondetDur("delta")
		if verifSymbolic() {
			verifAssume(verifAnd(d > 0, d <= 1<<40))
		} else if d > 200*1000*1000 {
			d = 200 * 1000 * 1000
		}
		c.delta = append(c.delta, d)
		select {
		case <-time.After(d):
			verifEvent("ping:answered")
			return nil
		case <-ctx.Done():
			verifEvent("ping:ctxdone")
			return ctx.Err()
		}
	case 2:
		c.delta = append(c.delta, -1)
		<-ctx.Done()
		verifEvent("ping:never")
		return ctx.Err()
	}
	c.delta = append(c.delta, 0)
	verifEvent("ping:fails")
	return errC13PingFailed
}

func VerifH_C13_KeepAlive() {
	interval := verifNondetDur("interval")
	timeout := verifNondetDur("timeout")
	if verifSymbolic() {
		verifAssume(verifAnd(verifAnd(interval > 0, interval <= 1<<40), verifAnd(timeout > 0, timeout <= 1<<40)))
		switch verifParam("timeout_lt_interval", 1) {
		case 1:
			// a ping is classified before the next tick is due (dropped ticks are outside the claim)
			verifAssume(timeout < interval)
		case 2:
			// answers may be slower than the interval and still in time
			verifAssume(verifAnd(timeout > interval, timeout <= 4*interval))
		}
	} else {
		if interval <= 0 || interval > 50*1000*1000 {
			interval = 5 * time.Millisecond
		}
		if timeout <= 0 || timeout > 100*1000*1000 {
			timeout = 20 * time.Millisecond
		}
	}
	ctx, cancel := context.WithCancel(context.Background())
	parentDeadline := false
	if verifParam("parentdeadline", 1) == 1 && verifChoice("parentdeadline", 2) == 1 {
		// the parent context ends by its own deadline, possibly in the middle of a ping
		pd := verifNondetDur("parentdeadline")
		if verifSymbolic() {
			verifAssume(verifAnd(pd > 0, pd <= 1<<40))
		} else if pd <= 0 || pd > 100*1000*1000 {
			pd = 12 * time.Millisecond
		}
		var c2 context.CancelFunc
		ctx, c2 = context.WithTimeout(ctx, pd)
		defer c2()
		parentDeadline = true
	}
	cli := &c13Client{maxPings: verifParam("pings", 2), stop: cancel}
	userCancelled := false
	if verifChoice("cancel", 2) == 1 {
		go func() {
			verifPause()
			userCancelled = true
			verifEvent("app:cancel")
			cancel()
		}()
	}
	t0 := verifNow()
	err := KeepAlive(ctx, cli, interval, timeout)
	verifReach("returned")
	verifAssert(err != nil, "C13.returns_only_with_error")
	tEnd := verifNow()
	if parentDeadline && ctx.Err() != nil && len(cli.starts) > 0 && !cli.stopped {
		// the context ended while the last ping had not yet used up its timeout: the context's error, not a ping timeout
		verifReach("parent-deadline")
		last := cli.starts[len(cli.starts)-1]
		within := tEnd-last < int64(timeout)
		if cli.outcome[len(cli.outcome)-1] == 2 || cli.outcome[len(cli.outcome)-1] == 1 {
			verifAssert(verifImplies(within, !errors.Is(err, ErrPingTimeout)), "C13.context_end_is_not_ping_timeout")
			verifAssert(verifImplies(within, errors.Is(err, ctx.Err())), "C13.context_end_reports_context_error")
		}
		return
	}
	if parentDeadline && ctx.Err() != nil {
		return
	}
	// pings start no earlier than k*interval; exactly k*interval while every earlier ping returned at once
	allAtOnce := true
	for k, s := range cli.starts {
		if verifSymbolic() {
			verifAssert(s-t0 >= int64(interval)*int64(k+1), "C13.ping_every_interval_lower_bound")
			if allAtOnce {
				verifAssert(s-t0 == int64(interval)*int64(k+1), "C13.ping_every_interval_exact")
			}
		}
		if cli.outcome[k] != 0 {
			allAtOnce = false
		}
	}
	// classification of the last ping
	n := len(cli.outcome)
	if userCancelled && !cli.stopped && len(cli.starts) > 0 {
		// cancelled while the last ping had not used up its timeout: the context's error, never a ping timeout
		lastStart := cli.starts[len(cli.starts)-1]
		within := tEnd-lastStart < int64(timeout)
		lo := cli.outcome[len(cli.outcome)-1]
		if lo == 1 || lo == 2 {
			verifAssert(verifImplies(within, !errors.Is(err, ErrPingTimeout)), "C13.cancel_is_not_ping_timeout")
			verifAssert(verifImplies(within, errors.Is(err, context.Canceled)), "C13.cancel_reports_context_error")
		}
	}
	if userCancelled || cli.stopped {
		verifReach("cancelled")
		// cancelled before the classification: the context's error, not a ping timeout
		if ctx.Err() != nil {
			isTimeout := errors.Is(err, ErrPingTimeout)
			isCtx := errors.Is(err, context.Canceled)
			// a ping that had already timed out or failed before the cancellation may be reported as such:
			// demanded only when the last ping could not have failed on its own
			lastOwn := n > 0 && (cli.outcome[n-1] == 3)
			if !lastOwn && !isTimeout {
				verifAssert(isCtx, "C13.cancel_reports_context_error")
			}
			if n > 0 && cli.outcome[n-1] == 0 {
				verifAssert(!isTimeout, "C13.cancel_is_not_ping_timeout")
			}
		}
		return
	}
	verifAssert(n > 0, "C13.no_spurious_return")
	if n == 0 {
		return
	}
	// every ping but the last succeeded in time (otherwise the loop would have stopped there)
	for k := 0; k+1 < n; k++ {
		ok := cli.outcome[k] == 0 || cli.outcome[k] == 1
		verifAssert(ok, "C13.loop_stops_at_first_failure")
	}
	switch cli.outcome[n-1] {
	case 0:
		verifAssert(false, "C13.keeps_running_while_answered")
	case 1:
		// answered after delta: the loop may stop only if delta >= timeout
		verifReach("late-answer")
		verifAssert(cli.delta[n-1] >= timeout, "C13.keeps_running_while_answered_in_time")
		if cli.delta[n-1] > timeout {
			verifAssert(errors.Is(err, ErrPingTimeout), "C13.late_answer_is_ping_timeout")
		}
	case 2:
		verifReach("silent")
		verifAssert(errors.Is(err, ErrPingTimeout), "C13.silence_is_ping_timeout")
	case 3:
		verifReach("ping-error")
	}
}

// A peer that answers every PINGREQ at once (the PINGRESP is readable before Transport.Write
// returns, and the reader goroutine may run first) is never declared silent.
func VerifH_C13_PromptPeer() {
	conn := newVconn("c0")
	conn.yieldAfterWrite = true
	cli := &BaseClient{Transport: conn}
	first := true
	pings := 0
	var cancel context.CancelFunc
	conn.onWrite = func(c *vconn, p []byte) error {
		var resp []byte
		if first {
			first = false
			resp = []byte{0x20, 2, 0, 0}
		} else if d := refDecode(p); d.ok && d.typ == 12 {
			pings++
			resp = []byte{0xD0, 0}
		}
		if resp != nil {
			c.rbuf = append(c.rbuf, resp...)
			c.nInjected += len(resp)
			c.signalLocked = true
		}
		return nil
	}
	_, cerr := cli.Connect(context.Background(), "cid")
	verifAssert(cerr == nil, "C13.harness_connect")
	ctx, cancel := context.WithCancel(context.Background())
	unit := time.Second
	if !verifSymbolic() {
		unit = 5 * time.Millisecond
	}
	go func() {
		// stop the experiment after a few intervals
		time.Sleep(3*unit + unit/2)
		cancel()
	}()
	err := KeepAlive(ctx, cli, unit, unit/2)
	verifReach("returned")
	verifAssert(!errors.Is(err, ErrPingTimeout), "C13.prompt_peer_is_not_silent")
	verifAssert(errors.Is(err, context.Canceled), "C13.prompt_peer_runs_until_cancelled")
	verifLock()
	verifAssert(pings >= 3, "C13.pings_sent_every_interval")
	verifUnlock()
	cli.Close()
}

// A peer that answers the first PINGREQ twice (a surplus, unsolicited PINGRESP) and then goes silent is
// declared silent at the very next ping: the stale response does not answer it.
func VerifH_C13_SurplusResp() {
	conn := newVconn("c0")
	cli := &BaseClient{Transport: conn}
	first := true
	pings := 0
	conn.onWrite = func(c *vconn, p []byte) error {
		var resp []byte
		if first {
			first = false
			resp = []byte{0x20, 2, 0, 0}
		} else if d := refDecode(p); d.ok && d.typ == 12 {
			pings++
			if pings == 1 {
				resp = []byte{0xD0, 0, 0xD0, 0}
			}
		}
		if resp != nil {
			c.rbuf = append(c.rbuf, resp...)
			c.nInjected += len(resp)
			c.signalLocked = true
		}
		return nil
	}
	_, cerr := cli.Connect(context.Background(), "cid")
	verifAssert(cerr == nil, "C13.harness_connect")
	unit := time.Second
	if !verifSymbolic() {
		unit = 5 * time.Millisecond
	}
	err := KeepAlive(context.Background(), cli, unit, unit/2)
	verifReach("returned")
	verifAssert(errors.Is(err, ErrPingTimeout), "C13.silence_is_ping_timeout")
	verifLock()
	verifAssert(pings == 2, "C13.silent_peer_detected_at_the_next_ping")
	verifUnlock()
	cli.Close()
}
