package mqtt

// U-resub (C01, C02, C03, C08): one run of the real Resubscribe task on an arbitrary retry queue
// (n opaque entries) and an established list of m subscriptions, the k-th re-subscription being
// interrupted: afterwards every re-subscription that did not complete is queued AHEAD of all old
// pending entries, the old entries are all still there, in their order, and nothing else is queued.
// The pre-state is arbitrary in content, so this holds after any history.

import "context"

func VerifH_Resub_Pass() {
	n := verifChoice("pending", verifParam("maxpending", 3)+1) // old retry-queue entries
	m := verifChoice("established", verifParam("maxsubs", 2)+1)
	failAt := verifChoice("fail", m+1) // which re-subscription is interrupted (m = none)
	var log []int                       // 100+i: old entry i ran; 200+f: SUBSCRIBE for filter f seen on the wire of the second client
	rc := &RetryClient{}
	for i := 0; i < n; i++ {
		i := i
		rc.retryQueue = append(rc.retryQueue, func(ctx context.Context, cli *BaseClient) error {
			log = append(log, 100+i)
			return nil
		})
	}
	for f := 0; f < m; f++ {
		rc.subEstablished = append(rc.subEstablished, Subscription{Topic: string([]byte{'s', byte('a' + f)}), QoS: QoS(f % 3)})
	}
	// first client: answers SUBSCRIBEs until the failAt-th, which is cut
	seen := 0
	c0 := newVconn("c0")
	cli0 := &BaseClient{Transport: c0}
	first0 := true
	c0.onWrite = func(c *vconn, p []byte) error {
		var resp []byte
		if first0 {
			first0 = false
			resp = []byte{0x20, 2, 0, 0}
		} else if d := refDecode(p); d.ok && d.typ == 8 {
			if seen == failAt {
				c.eof = true
				c.signalLocked = true
				return nil // packet lost, connection closes
			}
			seen++
			resp = append([]byte{0x90, byte(2 + len(d.qoss)), byte(d.id >> 8), byte(d.id)}, d.qoss...)
		}
		if resp != nil {
			c.rbuf = append(c.rbuf, resp...)
			c.nInjected += len(resp)
			c.signalLocked = true
		}
		return nil
	}
	_, err := cli0.Connect(context.Background(), "cid")
	verifAssert(err == nil, "Resub.harness_connect")
	rc.Resubscribe(context.Background())
	verifAssert(len(rc.taskQueue) == 1, "Resub.task_pushed")
	task := rc.taskQueue[0]
	task(context.Background(), cli0)
	verifReach("pass-done")
	c0.Close()
	// what is queued now: run it on a healthy second client and observe
	c1 := newVconn("c1")
	cli1 := &BaseClient{Transport: c1}
	first1 := true
	c1.onWrite = func(c *vconn, p []byte) error {
		var resp []byte
		if first1 {
			first1 = false
			resp = []byte{0x20, 2, 0, 0}
		} else if d := refDecode(p); d.ok && d.typ == 8 && len(d.filters) == 1 && len(d.filters[0]) == 2 {
			log = append(log, 200+int(d.filters[0][1]-'a'))
			resp = append([]byte{0x90, byte(2 + len(d.qoss)), byte(d.id >> 8), byte(d.id)}, d.qoss...)
		}
		if resp != nil {
			c.rbuf = append(c.rbuf, resp...)
			c.nInjected += len(resp)
			c.signalLocked = true
		}
		return nil
	}
	_, err = cli1.Connect(context.Background(), "cid")
	verifAssert(err == nil, "Resub.harness_connect2")
	q := rc.retryQueue
	rc.retryQueue = nil
	for _, f := range q {
		_ = f(context.Background(), cli1)
	}
	c1.Close()
	// expected: the interrupted re-subscription and the ones after it, then the old entries in order
	var want []int
	if failAt < m {
		verifReach("interrupted")
		for f := failAt; f < m; f++ {
			want = append(want, 200+f)
		}
	}
	for i := 0; i < n; i++ {
		want = append(want, 100+i)
	}
	verifAssert(len(log) == len(want), "Resub.queue_is_resubscriptions_then_old_pending")
	for i := 0; i < len(log) && i < len(want); i++ {
		verifAssert(log[i] == want[i], "Resub.queue_order")
	}
	// the established list holds exactly what was established before (all of it is being restored)
	verifAssert(len(rc.subEstablished) == m, "Resub.established_restored")
}
