package mqtt

// System harness: the real ReconnectClient (RetryClient + BaseClient underneath)
// against the broker model, an application thread submitting requests at chosen
// points, faults chosen while the budget lasts.  Oracles run at quiescence.
// Used by C01, C02, C03, C12 (and variants for C08, C09, C17, C18).

import (
	"context"
	"time"
)

const (
	rkPub0 = iota
	rkPub1
	rkPub2
	rkSub
	rkUnsub
)

type sysReq struct {
	tag      int
	kind     int
	accepted bool
	before   bool // submitted before Connect
}

type sysRun struct {
	b       *vbroker
	cli     ReconnectClient
	reqs    []sysReq
	errs    []error
	sym     byte // a symbolic payload byte shared by all messages (content fidelity)
	symT    byte // a symbolic topic byte
	connErr error
	presetIDs bool
	direct    bool
}

func (s *sysRun) submit(r *sysReq) {
	ctx := context.Background()
	var err error
	switch r.kind {
	case rkPub0, rkPub1, rkPub2:
		m := &Message{Topic: string([]byte{'t', s.symT}), QoS: QoS(r.kind), Retain: r.tag%2 == 1, Payload: []byte{byte(r.tag), s.sym}}
		if s.presetIDs {
			m.ID = uint16(0x4000 + r.tag) // the caller's own identifier
		}
		err = s.cli.Publish(ctx, m)
	case rkSub:
		_, err = s.cli.Subscribe(ctx, Subscription{Topic: string([]byte{'s', byte(r.tag)}), QoS: QoS1})
	case rkUnsub:
		err = s.cli.Unsubscribe(ctx, string([]byte{'u', byte(r.tag)}))
	}
	r.accepted = err == nil
	verifEvent("app:" + reqName(r.kind) + "(" + itoa(r.tag) + ")")
}

func reqName(k int) string {
	return []string{"pub0", "pub1", "pub2", "sub", "unsub"}[k]
}

// sysStart builds the scenario: kinds[] are the admissible request kinds.
func sysStart(kinds []int, nreq int, budget int) *sysRun {
	s := &sysRun{}
	s.sym = verifNondetU8("payloadbyte")
	s.symT = verifNondetU8("topicbyte")
	verifAssume(verifAnd(s.symT >= 'a', s.symT <= 'z'))
	b := &vbroker{budget: budget}
	b.methodB = verifChoice("q2method", 2) == 1
	b.allowWriteErr = verifParam("werr", 1) == 1
	b.allowConnect = verifParam("connectfaults", 0) == 1
	b.allowDialErr = verifParam("dialfaults", 0) == 1
	b.maxDials = 2*budget + 3
	b.sessionLoss = verifParam("sessionloss", 0) == 1 // a reconnect may find the session gone (not for C02)
	always := false
	if verifParam("always", 0) == 1 {
		always = verifChoice("alwaysresub", 2) == 1
	}
	s.b = b
	verifSetRand(100)
	rc := &RetryClient{}
	rc.OnError = func(err error) { s.errs = append(s.errs, err) }
	if verifParam("directq0", 0) == 1 {
		rc.DirectlyPublishQoS0 = verifChoice("directq0", 2) == 1 // QoS 0 messages bypass the queue while connected
		s.direct = rc.DirectlyPublishQoS0
	}
	unit := time.Second
	if !verifSymbolic() {
		unit = 10 * time.Millisecond // native replay: scaled durations
	}
	ropts := []ReconnectOption{WithReconnectWait(unit, 4*unit), WithTimeout(10*unit), WithAlwaysResubscribe(always)}
	if verifParam("defaultrc", 0) == 0 || verifChoice("defaultrc", 2) == 0 {
		ropts = append(ropts, WithRetryClient(rc))
	} // else: the default retrying client of NewReconnectClient (documented default: queued mode)
	cli, err := NewReconnectClient(b, ropts...)
	verifAssert(err == nil, "SYS.new_client")
	s.cli = cli
	for i := 0; i < nreq; i++ {
		s.reqs = append(s.reqs, sysReq{tag: i + 1, kind: kinds[verifChoice("kind", len(kinds))]})
	}
	return s
}

// run: submit `before` requests, Connect, then the rest (optionally pausing until the system is idle).
func (s *sysRun) run() {
	nb := verifChoice("nbefore", len(s.reqs)+1)
	if s.direct {
		// DirectlyPublishQoS0: requests are submitted once connected (a direct QoS 0 publish before the first
		// SetClient dereferences a nil client -- observed, outside every property's statement)
		verifAssume(nb == 0)
	}
	for i := 0; i < nb; i++ {
		s.reqs[i].before = true
		s.submit(&s.reqs[i])
	}
	// the context given to Connect: background, or (param cancelctx: 1 always, 2 as a choice) one that the
	// application cancels as soon as Connect has returned -- the usual `defer cancel()` pattern
	cctx, ccancel := context.WithCancel(context.Background())
	_, err := s.cli.Connect(cctx, "cid", WithCleanSession(false))
	s.connErr = err
	if cc := verifParam("cancelctx", 0); cc == 1 || (cc == 2 && verifChoice("cancelctx", 2) == 1) {
		ccancel()
		verifEvent("app:connected,ctx-cancelled")
	} else {
		verifEvent("app:connected")
	}
	_ = ccancel
	for i := nb; i < len(s.reqs); i++ {
		last := i == len(s.reqs)-1
		if last && verifParam("idlecut", 0) == 1 {
			// the broker drops the connection while the client is idle (nothing in flight, nothing queued)
			verifPause()
			s.b.cutIdle()
		}
		if last && verifParam("anypoint", 0) == 1 {
			// the last request comes from another application goroutine at an arbitrary scheduling point,
			// e.g. exactly between the installation of a freshly dialled client and its CONNECT
			r := &s.reqs[i]
			go func() {
				verifPauseAny()
				s.submit(r)
			}()
			continue
		}
		if verifChoice("pause", 2) == 1 {
			verifPause()
		}
		s.submit(&s.reqs[i])
	}
}

func ackKindOf(kind int) byte {
	switch kind {
	case rkPub1:
		return 4
	case rkPub2:
		return 7
	case rkSub:
		return 9
	case rkUnsub:
		return 11
	}
	return 0
}

// ---- oracles -------------------------------------------------------------

// C01: every accepted QoS>=1 publish / subscribe / unsubscribe has been acknowledged
// and the acknowledgement was read by the client; nothing is left queued.
func (s *sysRun) checkC01() {
	verifLock()
	defer verifUnlock()
	for _, r := range s.reqs {
		if !r.accepted || r.kind == rkPub0 {
			continue
		}
		verifAssert(s.b.ackRead(r.tag, ackKindOf(r.kind)), "C01.accepted_request_acknowledged")
	}
}

// C02: QoS 2 exactly once; nothing is sent for a message after its PUBCOMP was read.
func (s *sysRun) checkC02() {
	verifLock()
	defer verifUnlock()
	for _, r := range s.reqs {
		if !r.accepted || r.kind != rkPub2 {
			continue
		}
		n := 0
		for _, d := range s.b.deliveries {
			if d == r.tag {
				n++
			}
		}
		verifAssert(n <= 1, "C02.qos2_not_delivered_twice")
		verifAssert(n >= 1, "C02.qos2_delivered")
		// after the client has read PUBCOMP for the message: no further packet for it
		compSeq := -1
		for _, a := range s.b.acks {
			if a.tag == r.tag && a.kind == 7 && s.b.conns[a.conn].nRead >= a.end {
				// sequence number of the PUBREL attempt that produced it: find the attempt on that connection
				for _, at := range s.b.attempts {
					if at.conn == a.conn && at.p.typ == 6 && at.tag == r.tag && at.outcome == 'o' {
						if compSeq < 0 || at.seq < compSeq {
							compSeq = at.seq
						}
					}
				}
			}
		}
		if compSeq >= 0 {
			verifReach("pubcomp-read")
			for _, at := range s.b.attempts {
				if at.tag == r.tag && at.seq > compSeq && (at.p.typ == 3 || at.p.typ == 6) {
					// later attempts on the SAME connection before the client could have read PUBCOMP are fine only if
					// they precede the read; since processing is synchronous, any later attempt is after the answer was queued.
					// Demand strictly: later than the connection on which PUBCOMP was read.
					if at.conn > s.connOfSeq(compSeq) {
						verifAssert(false, "C02.nothing_sent_after_pubcomp")
					}
				}
			}
		}
	}
}

func (s *sysRun) connOfSeq(seq int) int {
	for _, at := range s.b.attempts {
		if at.seq == seq {
			return at.conn
		}
	}
	return -1
}

// C03: wire order = submission order.
func (s *sysRun) checkC03() {
	verifLock()
	defer verifUnlock()
	// (1) per connection, PUBLISH attempts of different messages appear in submission (= tag) order
	for ci := range s.b.conns {
		last := 0
		for _, at := range s.b.attempts {
			if at.conn != ci || at.p.typ != 3 {
				continue
			}
			if at.tag != last {
				verifAssert(at.tag > last, "C03.publish_order_on_connection")
				if at.tag > last {
					last = at.tag
				}
			}
		}
	}
	// (2) first attempts of all requests are in submission order
	last := 0
	var seen []int
	for _, at := range s.b.attempts {
		if at.p.typ != 3 && at.p.typ != 8 && at.p.typ != 10 {
			continue
		}
		first := true
		for _, t := range seen {
			if t == at.tag {
				first = false
			}
		}
		if !first {
			continue
		}
		seen = append(seen, at.tag)
		verifAssert(at.tag > last, "C03.first_transmission_order")
		if at.tag > last {
			last = at.tag
		}
	}
	// (3) with close-only faults, first deliveries of QoS>=1 messages are in submission order
	closeOnly := true
	for _, at := range s.b.attempts {
		if at.outcome == 'd' {
			closeOnly = false
		}
	}
	if closeOnly {
		last = 0
		var dseen []int
		for _, d := range s.b.deliveries {
			q0 := false
			for _, r := range s.reqs {
				if r.tag == d && r.kind == rkPub0 {
					q0 = true
				}
			}
			if q0 {
				continue
			}
			first := true
			for _, t := range dseen {
				if t == d {
					first = false
				}
			}
			if !first {
				continue
			}
			dseen = append(dseen, d)
			verifAssert(d > last, "C03.first_delivery_order")
			if d > last {
				last = d
			}
		}
	}
}

// C12: retransmissions are faithful.
func (s *sysRun) checkC12() {
	verifLock()
	defer verifUnlock()
	for _, r := range s.reqs {
		if r.kind > rkPub2 {
			continue
		}
		var first *vbAttempt
		n := 0
		relSent := false
		for i := range s.b.attempts {
			at := &s.b.attempts[i]
			if at.tag != r.tag {
				continue
			}
			if at.p.typ == 6 {
				if at.outcome != 'e' && at.outcome != 'x' {
					relSent = true
				}
				if first != nil {
					verifAssert(at.p.id == first.p.id, "C12.pubrel_same_id")
				}
				continue
			}
			if at.p.typ != 3 {
				continue
			}
			n++
			verifAssert(!relSent, "C12.no_publish_after_pubrel")
			if first == nil {
				first = at
				verifAssert(at.p.flags&0x08 == 0, "C12.first_transmission_dup0")
				verifAssert(verifBytesEq(at.p.payload, []byte{byte(r.tag), s.sym}), "C12.first_payload")
				verifAssert(verifBytesEq(at.p.topic, []byte{'t', s.symT}), "C12.first_topic")
				verifAssert((at.p.flags>>1)&3 == byte(r.kind), "C12.first_qos")
				verifAssert((at.p.flags&1 != 0) == (r.tag%2 == 1), "C12.first_retain")
				continue
			}
			verifReach("retransmission")
			verifAssert(at.p.flags&0x08 != 0, "C12.retransmission_dup1")
			verifAssert(at.p.id == first.p.id, "C12.retransmission_same_id")
			verifAssert(verifBytesEq(at.p.payload, first.p.payload), "C12.retransmission_same_payload")
			verifAssert(verifBytesEq(at.p.topic, first.p.topic), "C12.retransmission_same_topic")
			verifAssert(at.p.flags&0x07 == first.p.flags&0x07, "C12.retransmission_same_qos_retain")
		}
		if r.kind == rkPub0 {
			verifAssert(n <= 1, "C12.qos0_never_retransmitted")
		}
	}
}

// C15: an identifier the caller put on a message is used unchanged, on every transmission.
func (s *sysRun) checkC15() {
	verifLock()
	defer verifUnlock()
	for _, at := range s.b.attempts {
		if at.p.typ == 3 && at.p.flags&0x06 != 0 && at.tag > 0 {
			verifReach("publish-with-preset-id")
			verifAssert(at.p.id == uint16(0x4000+at.tag), "C15.caller_supplied_id_used_unchanged")
		}
	}
}

func sysScenario(kinds []int, which string) {
	nreq := verifParam("nreq", 2)
	budget := verifParam("faults", 1)
	s := sysStart(kinds, nreq, budget)
	s.presetIDs = which == "C15"
	verifOnQuiescence(func() {
		verifReach("quiescent")
		if s.connErr != nil {
			return
		}
		switch which {
		case "C01":
			s.checkC01()
		case "C02":
			s.checkC02()
			s.checkC12()
		case "C03":
			s.checkC03()
		case "C12":
			s.checkC12()
		case "C15":
			s.checkC15()
			s.checkC01()
		}
	})
	s.run()
}

func VerifH_SYS_C01() { sysScenario([]int{rkPub1, rkPub2, rkSub, rkUnsub}, "C01") }
func VerifH_SYS_C02() {
	kinds := []int{rkPub2, rkPub1}
	if verifParam("withsub", 0) == 1 {
		kinds = append(kinds, rkSub) // an established subscription makes reconnects re-subscribe (AlwaysResubscribe)
	}
	sysScenario(kinds, "C02")
}
func VerifH_SYS_C03() {
	kinds := []int{rkPub0, rkPub1, rkPub2, rkSub}
	switch verifParam("c03kinds", 0) {
	case 1:
		kinds = []int{rkPub1, rkSub} // the narrow variant used with session loss (re-subscription vs pending requests)
	case 2:
		kinds = []int{rkPub1} // QoS 1 publishes only (any-point submission variant)
	}
	sysScenario(kinds, "C03")
}
func VerifH_SYS_C12() { sysScenario([]int{rkPub0, rkPub1, rkPub2}, "C12") }
func VerifH_SYS_C15() { sysScenario([]int{rkPub1, rkPub2}, "C15") }
