package mqtt

import "context"

// C15 (a): newID from an arbitrary 32-bit counter.

func VerifH_C15_NewID() {
	cli := &BaseClient{}
	cli.idLast = verifNondetU32("idlast")
	k := verifParam("calls", 8)
	x := uint16(cli.idLast)
	var ids []uint16
	for i := 0; i < k; i++ {
		id := cli.newID()
		verifAssert(id != 0, "C15.id_nonzero")
		// one step of the cycle 1..65535
		var want uint16 = x + 1
		want = uint16(verifIteU16(x == 0xFFFF, 1, want))
		verifAssert(id == want, "C15.id_is_cycle_successor")
		x = id
		ids = append(ids, id)
	}
	verifReach("ids")
	for i := 0; i < len(ids); i++ {
		for j := i + 1; j < len(ids); j++ {
			verifAssert(ids[i] != ids[j], "C15.consecutive_ids_distinct")
		}
	}
}

// The cycle lemma: n steps from x along 1..65535 is g(x,n) = ((x-1+n) mod 65535)+1;
// g is injective in n < 65535, and one more step is the successor.  (The induction
// over n that joins the two is a paper step.)
func VerifH_C15_CycleLemma() {
	x := uint32(verifNondetU16("x"))
	n1 := uint32(verifNondetU16("n1"))
	n2 := uint32(verifNondetU16("n2"))
	verifAssume(verifAnd(x >= 1, verifAnd(n1 < 65535, n2 < 65535)))
	g := func(n uint32) uint32 { return (x-1+n)%65535 + 1 }
	verifAssert(verifImplies(n1 != n2, g(n1) != g(n2)), "C15.cycle_injective")
	s := g(n1)
	succ := s + 1
	succ = uint32(verifIteU16(s == 0xFFFF, 1, uint16(succ)))
	verifAssert(verifImplies(n1+1 < 65535, g(n1+1) == succ), "C15.cycle_step")
	verifAssert(verifAnd(g(n1) >= 1, g(n1) <= 65535), "C15.cycle_range")
	verifReach("lemma")
}

// A caller-supplied non-zero id is used unchanged by publishImpl (written PUBLISH carries it).
func VerifH_C15_PresetID() {
	conn := newVconn("c0")
	cli := &BaseClient{Transport: conn}
	cli.init()
	ctx, cancel := contextCancelled()
	defer cancel()
	id := verifNondetU16("id")
	qos := QoS(verifNondetU8("qos"))
	verifAssume(verifAnd(qos >= 1, qos <= 2))
	m := &Message{Topic: "t", ID: id, QoS: qos, Payload: []byte{1}}
	_ = cli.Publish(ctx, m)
	ws := conn.okWrites()
	verifAssert(len(ws) == 1, "C15.preset_one_write")
	if len(ws) != 1 {
		return
	}
	p := refDecode(ws[0])
	verifAssert(p.ok, "C15.preset_wellformed")
	verifReach("written")
	verifAssert(verifImplies(id != 0, p.id == id), "C15.preset_id_kept")
	verifAssert(p.id != 0, "C15.assigned_id_nonzero")
}

// C15 (b): concurrent callers of newID, every interleaving of the atomic operations within the
// delay bound, from a symbolic start (including just below wrap-around): all results distinct
// and non-zero.
func VerifH_C15_Concurrent() {
	cli := &BaseClient{}
	start := verifNondetU32("idlast")
	// concentrate on the interesting region as well as the general case
	if verifChoice("region", 2) == 1 {
		verifAssume(verifAnd(start >= 0xFFFC, start <= 0x10001))
	}
	cli.idLast = start
	n := verifParam("threads", 2)
	per := verifParam("percaller", 2)
	ids := make([][]uint16, n)
	done := make(chan struct{}, n)
	for i := 0; i < n; i++ {
		i := i
		go func() {
			for k := 0; k < per; k++ {
				ids[i] = append(ids[i], cli.newID())
			}
			done <- struct{}{}
		}()
	}
	for i := 0; i < n; i++ {
		<-done
	}
	verifReach("joined")
	var all []uint16
	for _, l := range ids {
		all = append(all, l...)
	}
	for i := range all {
		verifAssert(all[i] != 0, "C15.concurrent_id_nonzero")
		for j := i + 1; j < len(all); j++ {
			verifAssert(all[i] != all[j], "C15.concurrent_ids_distinct")
		}
	}
}

// C15 (c): identifiers of requests outstanding at the same time on a connection differ — also
// when one of them is a retransmission that keeps the identifier it got on an earlier connection
// while the new connection draws fresh identifiers from a newly seeded counter.
func VerifH_C15_AcrossReconnect() {
	c0 := newVconn("c0")
	cli0 := &BaseClient{Transport: c0}
	c0.answerConnect([]byte{0x20, 2, 0, 0})
	_, err := cli0.Connect(context.Background(), "cid")
	verifAssert(err == nil, "C15.harness_connect")
	if !verifSymbolic() {
		// native replay: the executor's symbolic rand.Int31n results become the counters' seeds
		cli0.idLast = verifNondetU32("rand.Int31n") + 1
	}
	if cli0.idLast != 0 {
		verifEvent("seeded") // Connect seeded the identifier counter (at random)
	} else {
		verifEvent("unseeded")
	}
	ctx, cancel := context.WithCancel(context.Background())
	// a QoS 1 publish is interrupted on the first connection
	var perr error
	pdone := make(chan struct{})
	go func() {
		perr = cli0.Publish(ctx, &Message{Topic: "t", QoS: QoS1, Payload: []byte{1}})
		close(pdone)
	}()
	verifPause()
	c0.peerClose()
	<-pdone
	re, ok := perr.(ErrorWithRetry)
	verifAssert(ok, "C15.harness_retry_handle")
	if !ok {
		cancel()
		return
	}
	// second connection: new base client, newly seeded identifier counter
	c1 := newVconn("c1")
	cli1 := &BaseClient{Transport: c1}
	c1.answerConnect([]byte{0x20, 2, 0, 0})
	_, err = cli1.Connect(context.Background(), "cid")
	verifAssert(err == nil, "C15.harness_connect2")
	if !verifSymbolic() {
		cli1.idLast = verifNondetU32("rand.Int31n") + 1
	}
	if cli1.idLast != 0 {
		verifEvent("seeded")
	} else {
		verifEvent("unseeded")
	}
	go func() { _ = re.Retry(ctx, cli1) }()
	go func() { _ = cli1.Publish(ctx, &Message{Topic: "u", QoS: QoS1, Payload: []byte{2}}) }()
	verifOnQuiescence(func() {
		verifReach("both-outstanding")
		ws := c1.okWrites()
		var ids []uint16
		for _, w := range ws {
			if d := refDecode(w); d.ok && d.typ == 3 {
				ids = append(ids, d.id)
			}
		}
		verifAssert(len(ids) == 2, "C15.harness_two_publishes")
		if len(ids) == 2 {
			verifAssert(ids[0] != ids[1], "C15.outstanding_ids_differ_across_reconnect")
		}
		cancel()
		c1.Close()
	})
}

// C15 (d): requests outstanding at the same time on ONE connection, one of them re-issued through its
// retry handle.  The first request fails without the connection ending (its acknowledgement does not
// arrive before the caller's context ends, or the transport rejects that one write), a second request is
// written and left unacknowledged, then the first is re-issued on the same client.  A re-issued PUBLISH
// is the same request and keeps its identifier; a re-issued SUBSCRIBE / UNSUBSCRIBE is a new packet whose
// identifier must not be one that is still in use; nothing shares an identifier with the second request.
func VerifH_C15_RetrySameConn() {
	conn := newVconn("c0")
	cli := &BaseClient{Transport: conn}
	first := true
	failNext := false
	conn.onWrite = func(c *vconn, p []byte) error {
		if first {
			first = false
			c.rbuf = append(c.rbuf, 0x20, 2, 0, 0)
			c.nInjected += 4
			c.signalLocked = true
			return nil
		}
		if failNext {
			failNext = false
			return errVconnWrite // a transient failure of this one write; the connection stays up
		}
		return nil
	}
	_, err := cli.Connect(context.Background(), "cid")
	verifAssert(err == nil, "C15.harness_connect")
	cli.idLast = verifNondetU32("idlast")
	kind1 := verifChoice("first", 4)  // publish QoS 1, publish QoS 2, subscribe, unsubscribe
	kind2 := verifChoice("second", 3) // publish QoS 1, subscribe, unsubscribe
	writeFails := verifChoice("failure", 2) == 1
	call := func(ctx context.Context, k int, mark string) error {
		switch k {
		case 0:
			return cli.Publish(ctx, &Message{Topic: "t" + mark, QoS: QoS1, Payload: []byte{1}})
		case 1:
			return cli.Publish(ctx, &Message{Topic: "t" + mark, QoS: QoS2, Payload: []byte{1}})
		case 2:
			_, err := cli.Subscribe(ctx, Subscription{Topic: "s" + mark, QoS: QoS1})
			return err
		}
		return cli.Unsubscribe(ctx, "s"+mark)
	}
	cctx, cancel := contextCancelled()
	defer cancel()
	verifLock()
	failNext = writeFails
	verifUnlock()
	err1 := call(cctx, kind1, "1")
	re, ok := err1.(ErrorWithRetry)
	verifAssert(ok, "C15.harness_retry_handle")
	if !ok {
		return
	}
	k2 := []int{0, 2, 3}[kind2]
	_ = call(cctx, k2, "2")
	_ = re.Retry(cctx, cli)
	// and a third, fresh request while the other two are still outstanding
	_ = call(cctx, []int{0, 2, 3}[verifChoice("third", 3)], "3")
	verifReach("reissued")
	var ids []uint16
	var marks []byte
	for _, w := range conn.okWrites() {
		d := refDecode(w)
		if !d.ok {
			continue
		}
		switch d.typ {
		case 3:
			ids = append(ids, d.id)
			marks = append(marks, d.topic[1])
		case 8, 10:
			ids = append(ids, d.id)
			marks = append(marks, d.filters[0][1])
		}
	}
	// packets on the wire: [first request (unless its write failed)], second request, re-issued first request, third request
	want := 4
	if writeFails {
		want = 3
	}
	verifAssert(len(ids) == want, "C15.harness_packets")
	if len(ids) != want {
		return
	}
	second, reissued, third := ids[want-3], ids[want-2], ids[want-1]
	verifAssert(verifAnd(second != 0, verifAnd(reissued != 0, third != 0)), "C15.id_nonzero")
	verifAssert(second != reissued, "C15.outstanding_ids_differ_on_one_connection")
	verifAssert(verifAnd(third != second, third != reissued), "C15.fresh_id_unused_by_outstanding_requests")
	if !writeFails {
		orig := ids[0]
		verifAssert(orig != second, "C15.outstanding_ids_differ_on_one_connection")
		verifAssert(third != orig, "C15.fresh_id_unused_by_outstanding_requests")
		if kind1 <= 1 {
			verifAssert(reissued == orig, "C15.reissued_publish_keeps_its_identifier")
		} else {
			// the first SUBSCRIBE / UNSUBSCRIBE was written and never acknowledged: its identifier is still in use
			verifAssert(reissued != orig, "C15.reissued_request_gets_unused_identifier")
		}
	}
	_ = marks
}
