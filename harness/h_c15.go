package mqtt

// C15 (a): newID from an arbitrary 32-bit counter.

func VerifH_C15_NewID() {
	cli := &BaseClient{}
	cli.idLast = verifNondetU32("idlast")
	k := verifParam("calls", 8)
	x := uint16(cli.idLast)
	var ids []uint16
	for i := 0; i < k; i++ {
		id := cli.newID()
		verifAssert(id != 0, "C15.id_nonzero")
		// one step of the cycle 1..65535
		var want uint16 = x + 1
		want = uint16(verifIteU16(x == 0xFFFF, 1, want))
		verifAssert(id == want, "C15.id_is_cycle_successor")
		x = id
		ids = append(ids, id)
	}
	verifReach("ids")
	for i := 0; i < len(ids); i++ {
		for j := i + 1; j < len(ids); j++ {
			verifAssert(ids[i] != ids[j], "C15.consecutive_ids_distinct")
		}
	}
}

// The cycle lemma: n steps from x along 1..65535 is g(x,n) = ((x-1+n) mod 65535)+1;
// g is injective in n < 65535, and one more step is the successor.  (The induction
// over n that joins the two is a paper step.)
func VerifH_C15_CycleLemma() {
	x := uint32(verifNondetU16("x"))
	n1 := uint32(verifNondetU16("n1"))
	n2 := uint32(verifNondetU16("n2"))
	verifAssume(verifAnd(x >= 1, verifAnd(n1 < 65535, n2 < 65535)))
	g := func(n uint32) uint32 { return (x-1+n)%65535 + 1 }
	verifAssert(verifImplies(n1 != n2, g(n1) != g(n2)), "C15.cycle_injective")
	s := g(n1)
	succ := s + 1
	succ = uint32(verifIteU16(s == 0xFFFF, 1, uint16(succ)))
	verifAssert(verifImplies(n1+1 < 65535, g(n1+1) == succ), "C15.cycle_step")
	verifAssert(verifAnd(g(n1) >= 1, g(n1) <= 65535), "C15.cycle_range")
	verifReach("lemma")
}

// A caller-supplied non-zero id is used unchanged by publishImpl (written PUBLISH carries it).
func VerifH_C15_PresetID() {
	conn := newVconn("c0")
	cli := &BaseClient{Transport: conn}
	cli.init()
	ctx, cancel := contextCancelled()
	defer cancel()
	id := verifNondetU16("id")
	qos := QoS(verifNondetU8("qos"))
	verifAssume(verifAnd(qos >= 1, qos <= 2))
	m := &Message{Topic: "t", ID: id, QoS: qos, Payload: []byte{1}}
	_ = cli.Publish(ctx, m)
	ws := conn.okWrites()
	verifAssert(len(ws) == 1, "C15.preset_one_write")
	if len(ws) != 1 {
		return
	}
	p := refDecode(ws[0])
	verifAssert(p.ok, "C15.preset_wellformed")
	verifReach("written")
	verifAssert(verifImplies(id != 0, p.id == id), "C15.preset_id_kept")
	verifAssert(p.id != 0, "C15.assigned_id_nonzero")
}
