package mqtt

// Independent reference codec written from the OASIS MQTT 3.1.1 text.
// Shares no code with packet.go.  Used as the oracle of C05 and by the broker
// model.  Written to branch only on lengths and packet types so that field
// values may stay symbolic.

type refPacket struct {
	ok    bool
	why   string
	typ   byte // high nibble
	flags byte // low nibble
	// CONNECT
	protoName []byte
	level     byte
	cflags    byte
	keepAlive uint16
	clientID  []byte
	willTopic []byte
	willMsg   []byte
	user      []byte
	pass      []byte
	// PUBLISH
	topic   []byte
	id      uint16
	payload []byte
	// SUBSCRIBE / UNSUBSCRIBE
	filters [][]byte
	qoss    []byte
}

func refBad(why string) refPacket { return refPacket{why: why} }

// refSplit parses the fixed header; returns type/flags, body and total consumed length.
func refSplit(b []byte) (h byte, body []byte, n int, ok bool) {
	if len(b) < 2 {
		return 0, nil, 0, false
	}
	h = b[0]
	mult := 1
	val := 0
	i := 1
	for {
		if i >= len(b) || i > 4 {
			return 0, nil, 0, false
		}
		e := b[i]
		i++
		val += int(e&0x7F) * mult
		if e&0x80 == 0 {
			// minimal encoding: the last byte of a multi-byte field must not be zero
			if i > 2 && e == 0 {
				return 0, nil, 0, false
			}
			break
		}
		mult *= 128
	}
	if len(b)-i < val {
		return 0, nil, 0, false
	}
	return h, b[i : i+val], i + val, true
}

func refStr(b []byte, off int) (s []byte, next int, ok bool) {
	if len(b)-off < 2 {
		return nil, 0, false
	}
	n := int(b[off])*256 + int(b[off+1])
	if len(b)-off-2 < n {
		return nil, 0, false
	}
	return b[off+2 : off+2+n], off + 2 + n, true
}

// refDecode decodes exactly one client->broker packet occupying all of b.
func refDecode(b []byte) refPacket {
	h, body, n, ok := refSplit(b)
	if !ok {
		return refBad("fixed header / remaining length")
	}
	if n != len(b) {
		return refBad("trailing bytes after packet")
	}
	p := refPacket{typ: h >> 4, flags: h & 0x0F}
	switch p.typ {
	case 1: // CONNECT
		if p.flags != 0 {
			return refBad("CONNECT reserved flags")
		}
		var off int
		p.protoName, off, ok = refStr(body, 0)
		if !ok || len(body)-off < 4 {
			return refBad("CONNECT variable header")
		}
		p.level = body[off]
		p.cflags = body[off+1]
		p.keepAlive = uint16(body[off+2])<<8 | uint16(body[off+3])
		off += 4
		p.clientID, off, ok = refStr(body, off)
		if !ok {
			return refBad("CONNECT client id")
		}
		if p.cflags&0x04 != 0 {
			p.willTopic, off, ok = refStr(body, off)
			if !ok {
				return refBad("CONNECT will topic")
			}
			p.willMsg, off, ok = refStr(body, off)
			if !ok {
				return refBad("CONNECT will message")
			}
		}
		if p.cflags&0x80 != 0 {
			p.user, off, ok = refStr(body, off)
			if !ok {
				return refBad("CONNECT user name")
			}
		}
		if p.cflags&0x40 != 0 {
			p.pass, off, ok = refStr(body, off)
			if !ok {
				return refBad("CONNECT password")
			}
		}
		if off != len(body) {
			return refBad("CONNECT payload length")
		}
	case 3: // PUBLISH
		var off int
		p.topic, off, ok = refStr(body, 0)
		if !ok {
			return refBad("PUBLISH topic")
		}
		if p.flags&0x06 != 0 {
			if len(body)-off < 2 {
				return refBad("PUBLISH packet id")
			}
			p.id = uint16(body[off])<<8 | uint16(body[off+1])
			off += 2
		}
		p.payload = body[off:]
	case 4, 5, 6, 7: // PUBACK PUBREC PUBREL PUBCOMP
		if len(body) != 2 {
			return refBad("ack body length")
		}
		p.id = uint16(body[0])<<8 | uint16(body[1])
	case 8: // SUBSCRIBE
		if len(body) < 2 {
			return refBad("SUBSCRIBE id")
		}
		p.id = uint16(body[0])<<8 | uint16(body[1])
		off := 2
		for off < len(body) {
			var f []byte
			f, off, ok = refStr(body, off)
			if !ok || off >= len(body) {
				return refBad("SUBSCRIBE filter")
			}
			p.filters = append(p.filters, f)
			p.qoss = append(p.qoss, body[off])
			off++
		}
		if len(p.filters) == 0 {
			return refBad("SUBSCRIBE without filters")
		}
	case 10: // UNSUBSCRIBE
		if len(body) < 2 {
			return refBad("UNSUBSCRIBE id")
		}
		p.id = uint16(body[0])<<8 | uint16(body[1])
		off := 2
		for off < len(body) {
			var f []byte
			f, off, ok = refStr(body, off)
			if !ok {
				return refBad("UNSUBSCRIBE filter")
			}
			p.filters = append(p.filters, f)
		}
		if len(p.filters) == 0 {
			return refBad("UNSUBSCRIBE without filters")
		}
	case 12, 14: // PINGREQ DISCONNECT
		if len(body) != 0 {
			return refBad("body in PINGREQ/DISCONNECT")
		}
	default:
		return refBad("packet type a client must not send")
	}
	p.ok = true
	return p
}

// refFlagsOK is the fixed-header flag table of §2.2.2 for client packets, as a
// (possibly symbolic) boolean.
func refFlagsOK(p refPacket) bool {
	switch p.typ {
	case 3:
		return (p.flags>>1)&3 != 3
	case 6, 8, 10:
		return p.flags == 2
	}
	return p.flags == 0
}

// refConnectFlagsOK: [MQTT-3.1.2-3], -11, -13, -14, -15, -22.
func refConnectFlagsOK(f byte) bool {
	ok := f&0x01 == 0
	willQoS := (f >> 3) & 3
	ok = verifAnd(ok, willQoS != 3)
	ok = verifAnd(ok, verifImplies(f&0x04 == 0, verifAnd(willQoS == 0, f&0x20 == 0)))
	ok = verifAnd(ok, verifImplies(f&0x80 == 0, f&0x40 == 0))
	return ok
}

// refEncodeRL: variable length encoding by the spec's divide algorithm.
func refEncodeRL(x int) []byte {
	var out []byte
	for {
		d := byte(x % 128)
		x = x / 128
		if x > 0 {
			d |= 128
		}
		out = append(out, d)
		if x == 0 {
			break
		}
	}
	return out
}

func refEncStr(b []byte, s []byte) []byte {
	b = append(b, byte(len(s)>>8), byte(len(s)))
	return append(b, s...)
}

func refPacketBytes(h byte, body []byte) []byte {
	out := []byte{h}
	out = append(out, refEncodeRL(len(body))...)
	return append(out, body...)
}

func refEncodePublish(topic []byte, id uint16, qos byte, dup, retain bool, payload []byte) []byte {
	h := byte(0x30) | qos<<1 | verifIteU8(dup, 0x08, 0) | verifIteU8(retain, 0x01, 0)
	var body []byte
	body = refEncStr(body, topic)
	if qos > 0 {
		body = append(body, byte(id>>8), byte(id))
	}
	body = append(body, payload...)
	return refPacketBytes(h, body)
}

func refEncodeAck(h byte, id uint16) []byte {
	return []byte{h, 2, byte(id >> 8), byte(id)}
}
