package mqtt

// Differential self-test of the executor (DESIGN §2.9): deterministic functions whose
// results are recorded as events; the same code runs natively (go test -overlay) and
// inside the engine, and the two event lists must be identical.

import (
	"context"
	"errors"
	"fmt"
	"io"
	"strings"
	"sync"
)

func stHex(b []byte) string {
	const d = "0123456789abcdef"
	out := make([]byte, 0, 2*len(b))
	for _, c := range b {
		out = append(out, d[c>>4], d[c&15])
	}
	return string(out)
}

func stU(v uint64) string {
	if v == 0 {
		return "0"
	}
	var d []byte
	for v > 0 {
		d = append([]byte{byte('0' + v%10)}, d...)
		v /= 10
	}
	return string(d)
}

func stB(b bool) string {
	if b {
		return "T"
	}
	return "F"
}

func st(name, val string) { verifEvent("st:" + name + "=" + val) }

type stShape interface{ Area() int }
type stRect struct{ w, h int }
type stSq struct{ stRect }

func (r stRect) Area() int   { return r.w * r.h }
func (r *stRect) Scale(k int) { r.w *= k; r.h *= k }

func stDefer() (res int) {
	defer func() {
		if r := recover(); r != nil {
			res = res*10 + 7
		}
	}()
	defer func() { res += 2 }()
	res = 1
	var m map[string]int
	m["x"] = 1 // panics
	return 99
}

func VerifH_SelfTest() {
	// fixed-width arithmetic
	var u8 uint8 = 250
	u8 += 10
	st("u8wrap", stU(uint64(u8)))
	var i8 int8 = 127
	i8++
	st("i8wrap", stU(uint64(uint8(i8))))
	var i32 int32 = -7
	st("sdiv", stU(uint64(uint32(i32/2))))
	st("srem", stU(uint64(uint32(i32%3))))
	st("sshr", stU(uint64(uint32(i32>>1))))
	st("ushr", stU(uint64(uint32(i32)>>1)))
	var sh uint = 70
	st("shl_over", stU(uint64(1)<<sh))
	m8 := int64(-8)
	st("shr_over_signed", stU(uint64(m8>>sh)))
	x := 0x12345678
	st("trunc16", stU(uint64(uint16(x))))
	m3 := int8(-3)
	st("sext", stU(uint64(int64(m3))))
	st("andnot", stU(uint64(0xFF&^0x0F)))
	var id32 uint32 = 0xFFFF
	id32++
	st("id_wrap", stU(uint64(uint16(id32))))
	// remaining length (repo's TestRemainingLength vectors)
	for _, n := range []int{0, 127, 128, 16383, 16384, 2097151, 2097152, 268435455} {
		st("rl"+stU(uint64(n)), stHex(remainingLength(n)))
	}
	// golden CONNECT bytes (repo's TestConnect cases)
	st("connect1", stHex((&pktConnect{ProtocolLevel: ProtocolLevel4, CleanSession: true, KeepAlive: 0x0123, ClientID: "cli", UserName: "user", Password: "pass",
		Will: &Message{Topic: "topic", Payload: []byte{0x01}, QoS: QoS1}}).Pack()))
	st("connect2", stHex((&pktConnect{ProtocolLevel: ProtocolLevel3, ClientID: "cli", Will: &Message{Topic: "topic", Payload: []byte{0x01}, QoS: QoS2, Retain: true}}).Pack()))
	st("publish", stHex((&pktPublish{Message: &Message{Topic: "a/b", ID: 0x1234, QoS: QoS2, Retain: true, Dup: true, Payload: []byte{1, 2, 3}}}).Pack()))
	st("subscribe", stHex((&pktSubscribe{ID: 7, Subscriptions: []Subscription{{Topic: "a", QoS: QoS1}, {Topic: "b/#", QoS: QoS2}}}).Pack()))
	// parsers (repo's TestPacketParseError inputs)
	_, e1 := (&pktConnAck{}).Parse(0x01, []byte{0, 0})
	st("connack_flag", stB(errors.Is(e1, ErrInvalidPacket)))
	_, e2 := (&pktPublish{}).Parse(0x06, []byte{0, 1, 'a', 0, 1})
	st("publish_qos3", stB(errors.Is(e2, ErrInvalidPacket)))
	_, e3 := (&pktPubAck{}).Parse(0, []byte{1})
	st("puback_short", stB(errors.Is(e3, ErrInvalidPacketLength)))
	p4, e4 := (&pktPublish{}).Parse(0x0B, []byte{0, 3, 'a', '/', 'b', 0x12, 0x34, 9, 8})
	st("publish_ok", stB(e4 == nil)+p4.Message.Topic+stU(uint64(p4.Message.ID))+stHex(p4.Message.Payload)+stB(p4.Message.Dup)+stB(p4.Message.Retain))
	_, e5 := (&pktPublish{}).Parse(0, []byte{0, 2, 'a', 0})
	st("publish_nul", stB(errors.Is(e5, ErrInvalidRune)))
	_, _, _, e6 := readPacket(&sliceReaderST{b: []byte{0x30, 0x80, 0x80, 0x80, 0x80, 0x01}})
	st("read_overlong", stB(errors.Is(e6, ErrInvalidPacketLength)))
	t7, f7, c7, e7 := readPacket(&sliceReaderST{b: []byte{0x3B, 0x03, 1, 2, 3}})
	st("read_ok", stU(uint64(t7))+stU(uint64(f7))+stHex(c7)+stB(e7 == nil))
	_, _, _, e8 := readPacket(&sliceReaderST{b: []byte{0x30, 0x05, 1}})
	st("read_short", stB(e8 == io.ErrUnexpectedEOF))
	// filters (repo's filter tables)
	for _, f := range []string{"a/b", "a/+", "+/b", "#", "a/#", "a/+/#", "a+", "a/#/b", "", "/", "+"} {
		tf, err := newTopicFilter(f)
		r := stB(err == nil)
		if err == nil {
			for _, tp := range []string{"a/b", "a", "a/b/c", "/", "b", "a/"} {
				r += stB(tf.Match(tp))
			}
		}
		st("filter["+f+"]", r)
	}
	// established subscriptions
	var est subscriptions
	(subscriptions{{Topic: "t1", QoS: QoS1}, {Topic: "t2", QoS: QoS2}, {Topic: "t1", QoS: QoS0}}).applyTo(&est)
	(unsubscriptions{"t2", "t2", "zz"}).applyTo(&est)
	r := ""
	for _, s := range est {
		r += s.Topic + stU(uint64(s.QoS)) + ","
	}
	st("applyTo", r)
	// errors
	w := wrapError(wrapErrorWithRetry(ErrClosedTransport, nil, "x"), "y")
	st("err_is", stB(errors.Is(w, ErrClosedTransport))+stB(errors.Is(w, ErrInvalidPacket))+stB(wrapError(io.EOF, "z") == io.EOF)+stB(wrapError(nil, "z") == nil))
	fw := fmt.Errorf("outer: %w", &ConnectionError{Err: ErrConnectionFailed, Code: 3})
	st("err_fmtw", stB(errors.Is(fw, ErrConnectionFailed)))
	var ce *ConnectionError
	st("err_as", stB(errors.As(wrapError(fw, "q"), &ce))+stU(uint64(ce.Code)))
	_, isRetry := w.(ErrorWithRetry)
	_, isRetry2 := wrapErrorWithRetry(ErrClosedTransport, nil, "x").(ErrorWithRetry)
	st("err_retry", stB(isRetry)+stB(isRetry2))
	// slices: append aliasing, copy overlap, three-index slices
	a := make([]int, 3, 8)
	b := append(a, 4)
	c := append(a, 5)
	st("alias", stU(uint64(b[3]))+stU(uint64(c[3]))+stU(uint64(len(a)))+stU(uint64(cap(b))))
	d := a[1:2:2]
	d = append(d, 9)
	d[0] = 7
	st("threeidx", stU(uint64(a[1]))+stU(uint64(a[2]))+stU(uint64(len(d))))
	e := []byte{1, 2, 3, 4, 5}
	copy(e[1:], e[:4])
	st("copyoverlap", stHex(e))
	var nilb []byte
	st("nilslice", stB(nilb == nil)+stB(append([]byte{}, nilb...) == nil)+stU(uint64(len(append([]byte{}, nilb...)))))
	// strings and UTF-8
	s := "héllo\xffw"
	rs := []rune(s)
	st("runes", stU(uint64(len(rs)))+stU(uint64(rs[1]))+stU(uint64(rs[5])))
	st("runes_back", stHex([]byte(string(rs))))
	n := 0
	for i, rr := range "aé\x80" {
		n = n*100 + i*10 + int(rr%7)
	}
	st("range_str", stU(uint64(n)))
	st("split", strings.Join(strings.Split("a//b/", "/"), "|")+stB(strings.Contains("ab+c", "+")))
	st("strcmp", stB("abc" < "abd")+stB("ab" < "abc")+stB("b" > "abc"))
	st("string_byte", string(rune(0x263A))+string([]byte{'o', 'k'}))
	// maps, structs, interfaces, closures
	m := map[uint16]string{3: "c", 1: "a"}
	m[2] = "b"
	delete(m, 3)
	_, has3 := m[3]
	st("map", stU(uint64(len(m)))+m[1]+m[2]+stB(has3)+m[9])
	sq := stSq{stRect{2, 3}}
	var sp stShape = sq
	sq.Scale(2)
	st("embed", stU(uint64(sp.Area()))+stU(uint64(sq.Area())))
	r1 := stRect{1, 2}
	r2 := r1
	r2.w = 5
	pr := &r1
	pr.h = 9
	st("structcopy", stU(uint64(r1.w))+stU(uint64(r1.h))+stU(uint64(r2.w))+stU(uint64(r2.h))+stB(r1 == stRect{1, 9}))
	arr := [3]int{1, 2, 3}
	arr2 := arr
	arr2[0] = 9
	st("arraycopy", stU(uint64(arr[0]))+stU(uint64(arr2[0])))
	var fs []func() int
	for i := 0; i < 3; i++ {
		fs = append(fs, func() int { return i * i })
	}
	st("closures", stU(uint64(fs[0]()+fs[1]()+fs[2]())))
	var ei error
	var pe *Error
	ei2 := error(pe)
	st("nilifaces", stB(ei == nil)+stB(ei2 == nil))
	meth := r1.Area
	r1.w = 100
	st("methodvalue", stU(uint64(meth())))
	st("defer", stU(uint64(stDefer())))
	// goroutines, channels, select, mutex, once, waitgroup, context
	ch := make(chan int, 2)
	var wg sync.WaitGroup
	var mu sync.Mutex
	total := 0
	for i := 1; i <= 3; i++ {
		wg.Add(1)
		go func(k int) {
			defer wg.Done()
			mu.Lock()
			total += k
			mu.Unlock()
		}(i)
	}
	wg.Wait()
	ch <- total
	close(ch)
	v1, ok1 := <-ch
	v2, ok2 := <-ch
	st("chan", stU(uint64(v1))+stB(ok1)+stU(uint64(v2))+stB(ok2))
	var nilch chan int
	sel := 0
	select {
	case <-nilch:
		sel = 1
	case v := <-ch:
		sel = 2 + v
	default:
		sel = 9
	}
	st("select", stU(uint64(sel)))
	var once sync.Once
	cnt := 0
	once.Do(func() { cnt++ })
	once.Do(func() { cnt++ })
	st("once", stU(uint64(cnt)))
	ctx, cancel := context.WithCancel(context.Background())
	ctx2, cancel2 := context.WithTimeout(ctx, 1<<40)
	ctx3 := context.WithValue(ctx2, "k", "v")
	cancel()
	<-ctx3.Done()
	st("ctx", stB(ctx3.Err() == context.Canceled)+stB(ctx2.Err() == context.Canceled)+ctx3.Value("k").(string)+stB(ctx.Value("k") == nil))
	cancel2()
	_, hasDl := ctx.Deadline()
	_, hasDl2 := ctx2.Deadline()
	st("ctxdl", stB(hasDl)+stB(hasDl2))
	unb := make(chan string)
	go func() { unb <- "hello" }()
	st("rendezvous", <-unb)
	// packet ids
	cl := &BaseClient{}
	cl.idLast = 0xFFFE
	st("newid", stU(uint64(cl.newID()))+","+stU(uint64(cl.newID()))+","+stU(uint64(cl.newID())))
	// ServeMux / clone
	mux := &ServeMux{}
	got := ""
	mux.Handle("a/+", HandlerFunc(func(m *Message) { got += "1"; m.Payload[0] = 9 }))
	mux.Handle("#", HandlerFunc(func(m *Message) { got += "2" + stU(uint64(m.Payload[0])) }))
	mux.Handle("b", HandlerFunc(func(m *Message) { got += "3" }))
	mux.Serve(&Message{Topic: "a/x", Payload: []byte{4}})
	st("mux", got)
}

type sliceReaderST struct {
	b []byte
	i int
}

func (r *sliceReaderST) Read(p []byte) (int, error) {
	if r.i >= len(r.b) {
		return 0, io.EOF
	}
	n := copy(p, r.b[r.i:])
	r.i += n
	return n, nil
}
