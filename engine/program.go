package main

import (
	"fmt"
	"go/types"
	"os"
	"path/filepath"
	"sort"
	"strings"
	"sync"

	"golang.org/x/tools/go/packages"
	"golang.org/x/tools/go/ssa"
	"golang.org/x/tools/go/ssa/ssautil"
)

type Program struct {
	prog      *ssa.Program
	pkg       *ssa.Package
	initOrder []*ssa.Package
	allowInit map[string]bool
	mu        sync.Mutex
	implCache map[string]bool
	fnCache   map[string]*ssa.Function
	harnessFn map[*ssa.Function]bool
	rtErrType types.Type
	loadErrs  []string
}

var initAllow = []string{"errors", "io", "context", "unicode/utf8", "strings"}

// LoadProgram type-checks /repo (plus the overlay harness files) and builds SSA for the import closure.
func LoadProgram(repo string, harnessDir string, files []string) (*Program, error) {
	overlay := map[string][]byte{}
	for _, f := range files {
		b, err := os.ReadFile(filepath.Join(harnessDir, f))
		if err != nil {
			return nil, err
		}
		overlay[filepath.Join(repo, "zz_verif_"+f)] = b
	}
	cfg := &packages.Config{
		Mode:    packages.LoadAllSyntax,
		Dir:     repo,
		Overlay: overlay,
		Env:     append(os.Environ(), "GOFLAGS=-mod=mod", "GOPROXY=off", "GOSUMDB=off", "GOTOOLCHAIN=local"),
	}
	pkgs, err := packages.Load(cfg, ".")
	if err != nil {
		return nil, err
	}
	P := &Program{allowInit: map[string]bool{}, implCache: map[string]bool{}, fnCache: map[string]*ssa.Function{}, harnessFn: map[*ssa.Function]bool{}}
	for _, p := range pkgs {
		for _, e := range p.Errors {
			P.loadErrs = append(P.loadErrs, e.Error())
		}
	}
	if len(P.loadErrs) > 0 {
		return P, fmt.Errorf("load errors: %s", strings.Join(P.loadErrs, "; "))
	}
	prog, spkgs := ssautil.AllPackages(pkgs, ssa.InstantiateGenerics)
	prog.Build()
	P.prog = prog
	P.pkg = spkgs[0]
	for _, a := range initAllow {
		P.allowInit[a] = true
	}
	P.allowInit[P.pkg.Pkg.Path()] = true
	P.initOrder = []*ssa.Package{P.pkg}
	if rt := prog.ImportedPackage("runtime"); rt != nil {
		if ty := rt.Type("errorString"); ty != nil {
			P.rtErrType = ty.Type()
		}
	}
	return P, nil
}

func (p *Program) initAllowed(pkg *ssa.Package) bool {
	return p.allowInit[pkg.Pkg.Path()]
}

func (p *Program) runtimeErrorType() types.Type { return p.rtErrType }

func (p *Program) fn(pkgPath, name string) *ssa.Function {
	key := pkgPath + "." + name
	p.mu.Lock()
	defer p.mu.Unlock()
	if f, ok := p.fnCache[key]; ok {
		return f
	}
	pk := p.prog.ImportedPackage(pkgPath)
	if pk == nil {
		unsup("package %s not in program", pkgPath)
	}
	f := pk.Func(name)
	if f == nil {
		unsup("function %s not found", key)
	}
	p.fnCache[key] = f
	return f
}

func (p *Program) namedType(pkgPath, name string) types.Type {
	pk := p.prog.ImportedPackage(pkgPath)
	if pk == nil {
		unsup("package %s not in program", pkgPath)
	}
	ty := pk.Type(name)
	if ty == nil {
		unsup("type %s.%s not found", pkgPath, name)
	}
	return ty.Type()
}

func (p *Program) implements(T types.Type, it *types.Interface) bool {
	key := T.String() + " :: " + it.String()
	p.mu.Lock()
	defer p.mu.Unlock()
	if v, ok := p.implCache[key]; ok {
		return v
	}
	v := types.Implements(T, it)
	p.implCache[key] = v
	return v
}

func (p *Program) isHarnessFn(fn *ssa.Function) bool {
	if fn == nil {
		return false
	}
	p.mu.Lock()
	defer p.mu.Unlock()
	if v, ok := p.harnessFn[fn]; ok {
		return v
	}
	f := fn
	for f.Parent() != nil {
		f = f.Parent()
	}
	v := false
	if f.Pos().IsValid() {
		name := filepath.Base(p.prog.Fset.Position(f.Pos()).Filename)
		v = strings.HasPrefix(name, "zz_verif_")
	} else if f.Synthetic != "" && f.Object() != nil && f.Object().Pos().IsValid() {
		name := filepath.Base(p.prog.Fset.Position(f.Object().Pos()).Filename)
		v = strings.HasPrefix(name, "zz_verif_")
	}
	p.harnessFn[fn] = v
	return v
}

// repoFunctions lists the functions of package mqtt (non-harness) with instruction counts.
func (p *Program) describeFns(hit map[string]int) (repo []map[string]interface{}, std []string) {
	seen := map[string]bool{}
	all := ssautil.AllFunctions(p.prog)
	byName := map[string]*ssa.Function{}
	for f := range all {
		byName[f.String()] = f
	}
	var names []string
	for n := range hit {
		names = append(names, n)
	}
	sort.Strings(names)
	for _, n := range names {
		f := byName[n]
		if f == nil || seen[n] {
			continue
		}
		seen[n] = true
		ni := 0
		for _, b := range f.Blocks {
			ni += len(b.Instrs)
		}
		inRepo := false
		if f.Pkg == p.pkg || (f.Parent() != nil && f.Parent().Pkg == p.pkg) || strings.Contains(n, p.pkg.Pkg.Path()) {
			inRepo = !p.isHarnessFn(f)
		}
		if inRepo {
			repo = append(repo, map[string]interface{}{"fn": n, "ssa_instrs": ni, "calls": hit[n]})
		} else if !p.isHarnessFn(f) {
			std = append(std, n)
		}
	}
	return
}
