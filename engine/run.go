package main

import (
	"fmt"
	"sort"
	"strings"
	"sync"
	"time"

	"golang.org/x/tools/go/ssa"
)

type Config struct {
	MaxLoop   int
	MaxDepth  int
	MaxSteps  int
	MaxTicks  int
	MakeCut   int
	Params    map[string]int
	AnyOnly      bool // delays are spent only on resuming verifPauseAny threads
	TimerPreempt bool // a pending timer may fire at any scheduling point (one delay)
	Delays    int
	Race      bool
	Solver    string
	XSolver   string
	TimeoutMs int
	MaxPaths  int
	Workers   int
	Verbose   int
}

// Decision is one entry of the replay vector.
type Decision struct {
	Kind  byte     `json:"k"`           // B branch, V value, C harness choice, S schedule, L select, T idle
	N     int      `json:"n"`           // alternatives (B: 2 if both sides feasible, else 1)
	Pick  int      `json:"p"`           // chosen alternative
	Val   uint64   `json:"v,omitempty"` // V: chosen value
	Excl  []uint64 `json:"x,omitempty"` // V: values excluded before choosing
	Open  bool     `json:"o,omitempty"` // V: value still to be chosen (excluding Excl)
	Label string   `json:"l,omitempty"`
}

type Violation struct {
	Harness   string            `json:"harness"`
	Assert    string            `json:"assert"`
	Msg       string            `json:"msg"`
	Events    []string          `json:"events"`
	Nondets   map[string]uint64 `json:"nondets"`
	Choices   map[string]int    `json:"choices"`
	Decisions []Decision        `json:"decisions"`
	Site      string            `json:"site,omitempty"`
	Blocked   []string          `json:"blocked_threads,omitempty"`
}

type nondetRec struct {
	key  string
	term *Term
}

type Engine struct {
	P       *Program
	tt      *TermTable
	solver2 *Solver
	xdis    int
	xchk    int
	solver  *Solver
	cfg    Config
	id     int
	fnInfo map[*ssa.Function]*fnInfo
}

type Run struct {
	e         *Engine
	harness   string
	pc        []*Term
	model     map[string]uint64
	decisions []Decision
	prefixLen int
	pos       int

	globals        map[*ssa.Global]*Value
	initDone       map[*ssa.Package]bool
	initRunning    map[*ssa.Package]bool
	foreignGlobals map[string]bool
	inInit         bool

	threads    []*Thread
	cur        *Thread
	wg         sync.WaitGroup
	done       chan struct{}
	aborting   bool
	endWhy     string
	noSched    bool
	delaysUsed int

	clock       *Term
	timers      []*vtimer
	timerSeq    int
	chanSeq     int
	timerFires  int
	tickerFires int

	mutexes  map[*Value]*mutexSt
	onces    map[*Value]*onceSt
	wgroups  map[*Value]*wgSt
	atomVC   map[*Value]*VC
	ioSync   VC // transport causality: every transport write happens-before every later transport read
	timerOf  map[*Value]*vtimer
	access   map[*Value]*accessInfo
	races    map[string]bool
	raceOn   bool
	heapSlots map[*Value]bool

	onQuiesce   []Value
	quiescences int
	events      []string
	reach       map[string]bool
	nondets     []nondetRec
	nondetCnt   map[string]int
	choiceCnt   map[string]int
	choices     map[string]int
	violations  []Violation
	unsupported []string
	internalErr string
	unknowns    int
	expectMake  map[string]bool
	cuts        []string

	nNormal    int
	randPinned int64
	horizon    bool
	bgCtx     *ctxObj
	ctxSeq    int
	ctxs      []*ctxObj
	makeLimit map[string]int64
	makeEq    map[string]*Term

	asserts     int
	steps       int
	switches    int
	schedPoints int
	fnHit       map[*ssa.Function]int
	intrHit     map[string]int
	infeasible  bool
}

func (e *Engine) newRun(harness string, prefix []Decision) *Run {
	r := &Run{
		e: e, harness: harness,
		decisions: append([]Decision{}, prefix...), prefixLen: len(prefix),
		globals: map[*ssa.Global]*Value{}, initDone: map[*ssa.Package]bool{}, initRunning: map[*ssa.Package]bool{},
		foreignGlobals: map[string]bool{},
		done:           make(chan struct{}),
		clock:          e.tt.Const(64, 0),
		mutexes:        map[*Value]*mutexSt{}, onces: map[*Value]*onceSt{}, wgroups: map[*Value]*wgSt{},
		atomVC: map[*Value]*VC{}, timerOf: map[*Value]*vtimer{}, access: map[*Value]*accessInfo{},
		races: map[string]bool{}, raceOn: e.cfg.Race, heapSlots: map[*Value]bool{},
		reach: map[string]bool{}, nondetCnt: map[string]int{}, choiceCnt: map[string]int{}, choices: map[string]int{},
		expectMake: map[string]bool{}, makeLimit: map[string]int64{}, makeEq: map[string]*Term{},
		fnHit:      map[*ssa.Function]int{}, intrHit: map[string]int{},
	}
	r.randPinned = -1
	r.model = map[string]uint64{} // the empty pc is satisfied by any model
	return r
}

func (r *Run) noteHeapSlice(a []Value) {}

func (r *Run) event(s string) {
	r.events = append(r.events, s)
}

// ---------------------------------------------------------------------------
// decisions

func (r *Run) decide(kind byte, n int, label string, cost int) int {
	if r.pos < len(r.decisions) {
		d := r.decisions[r.pos]
		if d.Kind != kind || (d.N != n && kind != 'B') {
			r.internalErr = fmt.Sprintf("replay divergence at %d: recorded %c/%d %s, now %c/%d %s", r.pos, d.Kind, d.N, d.Label, kind, n, label)
			panic(abortRun{"INTERNAL:" + r.internalErr})
		}
		r.pos++
		return d.Pick
	}
	r.decisions = append(r.decisions, Decision{Kind: kind, N: n, Pick: 0, Label: label})
	r.pos++
	return 0
}

// modelSays evaluates a Bool term under the cached model; ok=false if no model.
func (r *Run) modelSays(c *Term) (bool, bool) {
	if r.model == nil {
		return false, false
	}
	return c.Eval(r.model, map[*Term]uint64{}) == 1, true
}

func (r *Run) vars() []*Term {
	vs := make([]*Term, len(r.nondets))
	for i, n := range r.nondets {
		vs[i] = n.term
	}
	return vs
}

// check queries the solver for pc ∧ extra, refreshing the cached model when sat.
func (r *Run) check(extra *Term, keepModel bool) SatResult {
	res, m := r.e.solver.Check(r.pc, extra, r.vars(), true)
	if res == Unknown {
		r.unknowns++
	}
	if res == Sat && keepModel {
		if m == nil {
			m = map[string]uint64{}
		}
		r.model = m
	}
	return res
}

// branch arbitrates a symbolic condition.
func (r *Run) branch(c *Term, label string) bool {
	if c.IsConst() {
		return c.c == 1
	}
	tt := r.e.tt
	if r.pos < len(r.decisions) {
		d := r.decisions[r.pos]
		if d.Kind != 'B' {
			r.internalErr = fmt.Sprintf("replay divergence at %d: recorded %c %s, now B %s", r.pos, d.Kind, d.Label, label)
			panic(abortRun{"INTERNAL:" + r.internalErr})
		}
		r.pos++
		side := d.Pick == 0 // Pick 0 = true side
		r.addPC(c, side, d.N > 1)
		return side
	}
	// new branch point
	ms, have := r.modelSays(c)
	var tFeas, fFeas bool
	if have {
		if ms {
			tFeas = true
			res := r.check(tt.BNot(c), false)
			fFeas = res != Unsat
		} else {
			fFeas = true
			res := r.check(c, false)
			tFeas = res != Unsat
		}
	} else {
		res := r.check(c, true)
		tFeas = res != Unsat
		if !tFeas {
			fFeas = true
		} else {
			fFeas = r.check(tt.BNot(c), false) != Unsat
		}
	}
	if !tFeas && !fFeas {
		r.infeasible = true
		panic(abortRun{"infeasible"})
	}
	n := 1
	if tFeas && fFeas {
		n = 2
	}
	side := tFeas
	pick := 0
	if !side {
		pick = 1
	}
	r.decisions = append(r.decisions, Decision{Kind: 'B', N: n, Pick: pick, Label: label})
	r.pos++
	r.addPC(c, side, n > 1)
	return side
}

// addPC extends the path condition with c (or ¬c) and keeps the model cache honest.
func (r *Run) addPC(c *Term, side bool, needed bool) {
	tt := r.e.tt
	lit := c
	if !side {
		lit = tt.BNot(c)
	}
	if needed {
		r.pc = append(r.pc, lit)
	}
	if r.model != nil {
		if lit.Eval(r.model, map[*Term]uint64{}) != 1 {
			r.model = nil
		}
	}
}

// assume adds c to the path condition; the path ends silently if infeasible.
func (r *Run) assume(c *Term) {
	if c.IsTrue() {
		return
	}
	if c.IsFalse() {
		r.infeasible = true
		panic(abortRun{"infeasible"})
	}
	r.pc = append(r.pc, c)
	if ok, have := r.modelSays(c); have && ok {
		return
	}
	r.model = nil
	if r.pos < len(r.decisions) {
		return // following a prefix that was feasible when recorded
	}
	if r.check(nil, true) == Unsat {
		r.infeasible = true
		panic(abortRun{"infeasible"})
	}
}

// concretize case-splits a symbolic term into concrete values.
func (r *Run) concretize(t *Term, label string) uint64 {
	if t.IsConst() {
		return t.c
	}
	tt := r.e.tt
	if r.pos < len(r.decisions) {
		d := &r.decisions[r.pos]
		if d.Kind != 'V' {
			r.internalErr = fmt.Sprintf("replay divergence at %d: recorded %c %s, now V %s", r.pos, d.Kind, d.Label, label)
			panic(abortRun{"INTERNAL:" + r.internalErr})
		}
		r.pos++
		if d.Open {
			ex := tt.Bool(true)
			for _, x := range d.Excl {
				ex = tt.BAnd(ex, tt.BNot(tt.Bin(OpEq, t, tt.Const(t.w, x))))
			}
			r.pc = append(r.pc, ex)
			r.model = nil
			if r.check(nil, true) != Sat {
				r.infeasible = true
				panic(abortRun{"infeasible"})
			}
			d.Val = t.Eval(r.model, map[*Term]uint64{})
			d.Open = false
			d.N = 2
		}
		r.addPC(tt.Bin(OpEq, t, tt.Const(t.w, d.Val)), true, true)
		return d.Val
	}
	if r.model == nil {
		if r.check(nil, true) != Sat {
			r.infeasible = true
			panic(abortRun{"infeasible"})
		}
	}
	val := t.Eval(r.model, map[*Term]uint64{})
	eq := tt.Bin(OpEq, t, tt.Const(t.w, val))
	n := 1
	if r.check(tt.BNot(eq), false) != Unsat {
		n = 2
	}
	r.decisions = append(r.decisions, Decision{Kind: 'V', N: n, Val: val, Label: label})
	r.pos++
	r.addPC(eq, true, n > 1)
	return val
}

// ---------------------------------------------------------------------------
// outcomes

func (r *Run) nondetModel() map[string]uint64 {
	m := map[string]uint64{}
	for _, n := range r.nondets {
		if r.model != nil {
			m[n.key] = n.term.Eval(r.model, map[*Term]uint64{})
		}
	}
	return m
}

func (r *Run) violation(assert, msg string, model map[string]uint64) {
	if model == nil {
		if r.model == nil {
			r.check(nil, true)
		}
		model = r.nondetModel()
	}
	ch := map[string]int{}
	for k, v := range r.choices {
		ch[k] = v
	}
	site := ""
	if r.cur != nil {
		site = r.cur.site()
	}
	var blocked []string
	for _, th := range r.threads {
		if th.state == tBlocked && th != r.cur {
			w := th.name + ": " + th.what
			if th.top != nil && th.top.curInstr != nil {
				w += " at " + r.e.P.pos(th.top.curInstr.Pos()) + " in " + th.top.fn.String()
			}
			blocked = append(blocked, w)
		}
	}
	r.violations = append(r.violations, Violation{
		Harness: r.harness, Assert: assert, Msg: msg, Blocked: blocked,
		Events:    append([]string{}, r.events...),
		Nondets:   model,
		Choices:   ch,
		Decisions: append([]Decision{}, r.decisions[:r.pos]...),
		Site:      site,
	})
}

// assert checks a property: SAT(pc ∧ ¬c) is a violation.
func (r *Run) assert(c *Term, id string) {
	r.asserts++
	if c.IsTrue() {
		return
	}
	if r.pos < r.prefixLen {
		// an ancestor run met this assertion under the same path condition
		r.pc = append(r.pc, c)
		if ok, have := r.modelSays(c); !have || !ok {
			r.model = nil
		}
		return
	}
	if c.IsFalse() {
		r.violation(id, "assertion is false on this path", nil)
		panic(abortRun{"assert-failed"})
	}
	if ms, have := r.modelSays(c); have && !ms {
		r.violation(id, "assertion can be false", r.nondetModel())
	} else {
		saved := r.model
		res := r.check(r.e.tt.BNot(c), true)
		switch res {
		case Sat:
			r.violation(id, "assertion can be false", r.nondetModel())
		case Unknown:
			r.cuts = append(r.cuts, "UNKNOWN on assertion "+id)
		}
		r.model = saved
		if r.e.solver2 != nil && res != Unknown {
			// cross-check the verdict of every assertion query on a second solver
			res2, _ := r.e.solver2.Check(r.pc, r.e.tt.BNot(c), nil, false)
			r.e.xchk++
			if res2 != Unknown && res2 != res {
				r.e.xdis++
				r.internalErr = "solver disagreement on assertion " + id + ": " + r.e.solver.name + "=" + res.String() + " " + r.e.solver2.name + "=" + res2.String()
				panic(abortRun{"INTERNAL:" + r.internalErr})
			}
		}
	}
	// continue on the side where it holds
	r.assume(c)
}

func (r *Run) uncaughtPanic(t *Thread, p *GoPanic) {
	r.event("PANIC " + p.msg)
	r.violation("panic", fmt.Sprintf("uncaught %s at %s (thread %s)", p.msg, p.site, t.name), nil)
	r.violations[len(r.violations)-1].Site = p.site
}

// ---------------------------------------------------------------------------
// executing one run

type RunResult struct {
	Decisions  []Decision
	PrefixLen  int
	EndWhy     string
	Violations []Violation
	Infeasible bool
	Bound      string
	Unsup      []string
	Internal   string
	Unknowns   int
	Steps      int
	Events     []string
	Reach      map[string]bool
	FnHit      map[*ssa.Function]int
	IntrHit    map[string]int
	Switches   int
	SchedPts   int
	Cuts       []string
	Foreign    []string
	LiveLib    int
	Threads    int
	Fires      int
}

func (e *Engine) Execute(harness string, prefix []Decision) *RunResult {
	r := e.newRun(harness, prefix)
	fn := e.P.pkg.Func(harness)
	if fn == nil {
		return &RunResult{Internal: "no such harness " + harness}
	}
	main := r.newThread("main", false, nil)
	r.cur = main
	r.start(main, func() {
		r.inInit = true
		r.noSched = true
		r.runInits(main)
		r.noSched = false
		r.inInit = false
		main.callFn(fn, nil, nil, nil)
	})
	main.wake <- struct{}{}
	<-r.done
	r.wg.Wait()
	res := &RunResult{
		Decisions: r.decisions[:r.pos], PrefixLen: r.prefixLen, EndWhy: r.endWhy,
		Violations: r.violations, Infeasible: r.infeasible, Unsup: r.unsupported,
		Internal: r.internalErr, Unknowns: r.unknowns, Steps: r.steps, Events: r.events,
		Reach: r.reach, FnHit: r.fnHit, IntrHit: r.intrHit, Switches: r.switches, SchedPts: r.schedPoints,
		Cuts: r.cuts, Threads: len(r.threads), Fires: r.timerFires,
	}
	if strings.HasPrefix(r.endWhy, "BOUND:") {
		res.Bound = r.endWhy
	}
	for g := range r.foreignGlobals {
		res.Foreign = append(res.Foreign, g)
	}
	sort.Strings(res.Foreign)
	return res
}

// runInits interprets the package initialisers of the allow-listed packages
// (dependencies first) and then of package mqtt.
func (r *Run) runInits(t *Thread) {
	for _, p := range r.e.P.initOrder {
		r.initRunning[p] = true
		if initFn := p.Func("init"); initFn != nil {
			t.callFn(initFn, nil, nil, nil)
		}
		r.initRunning[p] = false
		r.initDone[p] = true
	}
}

// ---------------------------------------------------------------------------
// exploration: DFS over decision vectors with stateless re-execution

type Summary struct {
	Harness     string
	Paths       int
	Infeasible  int
	Decisions   int
	Violations  []Violation
	Bounds      map[string]int
	Unsup       map[string]int
	Internal    map[string]int
	Unknowns    int
	Steps       int
	Reach       map[string]int
	FnHit       map[string]int
	IntrHit     map[string]int
	EventSeqs   map[string]int
	Cuts        map[string]int
	Foreign     map[string]int
	Ends        map[string]int
	MaxDecision int
	Truncated   bool
	Queries     int
	QSat        int
	QUnsat      int
	QUnknown    int
	SolverErr   int
	SolverSec   float64
	XChecked    int
	WallSec     float64
	SchedPts    int
	Switches    int
	Samples     []string
	KindCount   map[string]int
}

type workItem struct{ prefix []Decision }

func Explore(P *Program, cfg Config, harness string) *Summary {
	t0 := time.Now()
	sum := &Summary{Harness: harness, Bounds: map[string]int{}, Unsup: map[string]int{}, Internal: map[string]int{},
		Reach: map[string]int{}, FnHit: map[string]int{}, IntrHit: map[string]int{}, EventSeqs: map[string]int{},
		Cuts: map[string]int{}, Foreign: map[string]int{}, Ends: map[string]int{}, KindCount: map[string]int{}}
	var mu sync.Mutex
	cond := sync.NewCond(&mu)
	stack := []workItem{{}}
	busy := 0
	seenViol := map[string]bool{}
	var wg sync.WaitGroup
	nw := cfg.Workers
	if nw < 1 {
		nw = 1
	}
	for w := 0; w < nw; w++ {
		wg.Add(1)
		go func(w int) {
			defer wg.Done()
			tt := NewTermTable()
			solver, err := NewSolver(cfg.Solver, tt, cfg.TimeoutMs)
			if err != nil {
				mu.Lock()
				sum.Internal["solver start: "+err.Error()]++
				mu.Unlock()
				return
			}
			defer solver.Close()
			e := &Engine{P: P, tt: tt, solver: solver, cfg: cfg, id: w, fnInfo: map[*ssa.Function]*fnInfo{}}
			if cfg.XSolver != "" {
				s2, err := NewSolver(cfg.XSolver, tt, cfg.TimeoutMs)
				if err == nil {
					e.solver2 = s2
					defer s2.Close()
				}
			}
			for {
				mu.Lock()
				for len(stack) == 0 && busy > 0 {
					cond.Wait()
				}
				if len(stack) == 0 && busy == 0 {
					mu.Unlock()
					cond.Broadcast()
					break
				}
				it := stack[len(stack)-1]
				stack = stack[:len(stack)-1]
				busy++
				if cfg.MaxPaths > 0 && sum.Paths >= cfg.MaxPaths {
					sum.Truncated = true
					stack = nil
					busy--
					mu.Unlock()
					cond.Broadcast()
					continue
				}
				mu.Unlock()

				res := e.Execute(harness, it.prefix)

				mu.Lock()
				// siblings
				start := res.PrefixLen
				if start > 0 {
					start-- // the flipped decision itself may have further alternatives
				}
				for i := len(res.Decisions) - 1; i >= start; i-- {
					d := res.Decisions[i]
					if i < res.PrefixLen-1 {
						break
					}
					switch d.Kind {
					case 'V':
						if d.N > 1 && !d.Open {
							nd := Decision{Kind: 'V', N: 2, Open: true, Excl: append(append([]uint64{}, d.Excl...), d.Val), Label: d.Label}
							p := append(append([]Decision{}, res.Decisions[:i]...), nd)
							stack = append(stack, workItem{p})
						}
					default:
						lo := d.Pick + 1
						if i == res.PrefixLen-1 && d.Kind != 'V' {
							// the prefix's last entry was produced by a parent that enumerates all its alternatives itself
							continue
						}
						for a := d.N - 1; a >= lo; a-- {
							nd := d
							nd.Pick = a
							p := append(append([]Decision{}, res.Decisions[:i]...), nd)
							stack = append(stack, workItem{p})
						}
					}
				}
				// record
				if res.Infeasible && len(res.Violations) == 0 {
					sum.Infeasible++
				} else {
					sum.Paths++
				}
				sum.Decisions += len(res.Decisions) - res.PrefixLen
				if len(res.Decisions) > sum.MaxDecision {
					sum.MaxDecision = len(res.Decisions)
				}
				for _, d := range res.Decisions[min(res.PrefixLen, len(res.Decisions)):] {
					sum.KindCount[string(d.Kind)]++
				}
				sum.Steps += res.Steps
				sum.Unknowns += res.Unknowns
				sum.SchedPts += res.SchedPts
				sum.Switches += res.Switches
				sum.Ends[endClass(res.EndWhy)]++
				if res.Bound != "" {
					sum.Bounds[res.Bound]++
				}
				for _, u := range res.Unsup {
					sum.Unsup[u]++
				}
				if res.Internal != "" {
					sum.Internal[res.Internal]++
				}
				for k := range res.Reach {
					sum.Reach[k]++
				}
				for f, n := range res.FnHit {
					sum.FnHit[f.String()] += n
				}
				for f, n := range res.IntrHit {
					sum.IntrHit[f] += n
				}
				for _, c := range res.Cuts {
					sum.Cuts[c]++
				}
				for _, g := range res.Foreign {
					sum.Foreign[g]++
				}
				if !res.Infeasible {
					es := strings.Join(res.Events, " ")
					sum.EventSeqs[es]++
				}
				for _, v := range res.Violations {
					key := v.Assert + "|" + strings.Join(v.Events, " ") + "|" + fmt.Sprint(v.Choices)
					if !seenViol[key] {
						seenViol[key] = true
						sum.Violations = append(sum.Violations, v)
					}
				}
				busy--
				mu.Unlock()
				cond.Broadcast()
			}
			mu.Lock()
			sum.Queries += solver.nQueries
			sum.QSat += solver.nSat
			sum.QUnsat += solver.nUnsat
			sum.QUnknown += solver.nUnknown
			sum.SolverErr += solver.nErrors
			sum.SolverSec += solver.solverTime.Seconds()
			sum.XChecked += e.xchk
			if e.solver2 != nil {
				sum.SolverSec += e.solver2.solverTime.Seconds()
			}
			mu.Unlock()
		}(w)
	}
	wg.Wait()
	sum.WallSec = time.Since(t0).Seconds()
	return sum
}

func endClass(w string) string {
	if i := strings.Index(w, ":"); i >= 0 {
		return w[:i]
	}
	return w
}

// checkMake models runtime.makeslice's checks and cuts symbolic allocation sizes.
func (r *Run) checkMake(t *Thread, fr *Frame, lenT, capT *Term) {
	tt := r.e.tt
	if lenT.w < 64 {
		lenT = tt.SExt(lenT, 64)
	}
	if capT.w < 64 {
		capT = tt.SExt(capT, 64)
	}
	ok := tt.BAnd(tt.Bin(OpSle, tt.Const(64, 0), lenT), tt.Bin(OpSle, lenT, capT))
	ok = tt.BAnd(ok, tt.Bin(OpSle, capT, tt.Const(64, 1<<47)))
	if !r.branch(ok, "makeslice") {
		panic(&GoPanic{msg: "panic: runtime error: makeslice: len out of range"})
	}
	fname := fr.fn.Name()
	limit, haveLimit := r.makeLimit[fname]
	if haveLimit {
		r.assert(tt.Bin(OpSle, capT, tt.Const(64, uint64(limit))), "alloc_bound:"+fname)
	}
	if want, ok := r.makeEq[fname]; ok {
		r.reach["make:"+fname] = true
		r.assert(tt.Bin(OpEq, capT, want), "alloc_len:"+fname)
	}
	const engineMax = 1 << 16
	if capT.IsConst() {
		if capT.c > engineMax {
			r.cuts = append(r.cuts, fmt.Sprintf("path ended at make(%d) in %s (engine allocation limit)", capT.c, fname))
			panic(abortRun{"cut:make"})
		}
		return
	}
	cut := int64(r.e.cfg.MakeCut)
	r.cuts = append(r.cuts, fmt.Sprintf("symbolic make length in %s continued only for len <= %d", fname, cut))
	r.assume(tt.Bin(OpSle, capT, tt.Const(64, uint64(cut))))
}
