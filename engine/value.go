package main

import (
	"fmt"
	"go/types"
	"strings"

	"golang.org/x/tools/go/ssa"
)

// Value representation (after go/ssa/interp, with scalars as terms):
//   *Term      bool (w=0) and all integer kinds (w=8..64)
//   Str        immutable string: vector of 8-bit terms
//   *Value     pointer (to a slot); nil pointer = (*Value)(nil)
//   Slice      view on a Go []Value backing store (aliasing = Go's own)
//   Array      value type, copied on load/store
//   Struct     value type, copied on load/store
//   *MapV      insertion-ordered association list; nil map = (*MapV)(nil)
//   Iface      dynamic type + value; T==nil is the nil interface
//   *Closure   function value; nil func = (*Closure)(nil)
//   *Chan      channel; nil chan = (*Chan)(nil)
//   Tuple      multiple results
//   *Opaque    engine-owned objects (context, reflect values, ...)
type Value interface{}

type Str struct{ b []*Term }
type Slice struct {
	a   []Value
	nnl bool // non-nil (a may be empty but non-nil)
}
type Array []Value
type Struct []Value
type Tuple []Value
type Iface struct {
	T types.Type
	V Value
}
type Closure struct {
	Fn      *ssa.Function
	Env     []Value
	Builtin *ssa.Builtin
}
type MapV struct {
	keys []Value
	vals []Value
	slot Value // identity slot for race logging
}
type Opaque struct {
	kind string
	data interface{}
}

func (s Slice) isNil() bool { return !s.nnl && s.a == nil }

func mkSlice(a []Value) Slice { return Slice{a: a, nnl: true} }

func (e *Engine) strConst(s string) Str {
	b := make([]*Term, len(s))
	for i := 0; i < len(s); i++ {
		b[i] = e.tt.Const(8, uint64(s[i]))
	}
	return Str{b}
}

// concreteStr returns the Go string if every byte is constant.
func concreteStr(s Str) (string, bool) {
	buf := make([]byte, len(s.b))
	for i, t := range s.b {
		if !t.IsConst() {
			return "", false
		}
		buf[i] = byte(t.c)
	}
	return string(buf), true
}

func mustStr(s Str) string {
	x, ok := concreteStr(s)
	if !ok {
		// render symbolic bytes as '?'
		var sb strings.Builder
		for _, t := range s.b {
			if t.IsConst() {
				sb.WriteByte(byte(t.c))
			} else {
				sb.WriteByte('?')
			}
		}
		return sb.String()
	}
	return x
}

func widthOf(t types.Type) (w int, signed bool, ok bool) {
	b, isB := t.Underlying().(*types.Basic)
	if !isB {
		return 0, false, false
	}
	switch b.Kind() {
	case types.Bool, types.UntypedBool:
		return 0, false, true
	case types.Int8:
		return 8, true, true
	case types.Int16:
		return 16, true, true
	case types.Int32, types.UntypedRune:
		return 32, true, true
	case types.Int64, types.Int, types.UntypedInt:
		return 64, true, true
	case types.Uint8:
		return 8, false, true
	case types.Uint16:
		return 16, false, true
	case types.Uint32:
		return 32, false, true
	case types.Uint64, types.Uint, types.Uintptr:
		return 64, false, true
	}
	return 0, false, false
}

type unsupported struct{ what string }

func unsup(format string, a ...interface{}) {
	panic(unsupported{fmt.Sprintf(format, a...)})
}

// zero returns the zero value of a type.
func (e *Engine) zero(t types.Type) Value {
	switch u := t.Underlying().(type) {
	case *types.Basic:
		if u.Kind() == types.String || u.Kind() == types.UntypedString {
			return Str{}
		}
		if u.Kind() == types.UnsafePointer {
			return (*Value)(nil)
		}
		if u.Kind() == types.UntypedNil {
			return nil
		}
		if w, _, ok := widthOf(u); ok {
			return e.tt.Const(w, 0)
		}
		if u.Info()&types.IsFloat != 0 {
			return &Opaque{kind: "float", data: 0.0}
		}
		unsup("zero of basic %v", u)
	case *types.Pointer:
		return (*Value)(nil)
	case *types.Slice:
		return Slice{}
	case *types.Array:
		a := make(Array, u.Len())
		for i := range a {
			a[i] = e.zero(u.Elem())
		}
		return a
	case *types.Struct:
		s := make(Struct, u.NumFields())
		for i := range s {
			s[i] = e.zero(u.Field(i).Type())
		}
		return s
	case *types.Map:
		return (*MapV)(nil)
	case *types.Interface:
		return Iface{}
	case *types.Signature:
		return (*Closure)(nil)
	case *types.Chan:
		return (*Chan)(nil)
	case *types.Tuple:
		tu := make(Tuple, u.Len())
		for i := range tu {
			tu[i] = e.zero(u.At(i).Type())
		}
		return tu
	}
	unsup("zero of %v", t)
	return nil
}

// copyVal copies value-typed aggregates (struct, array).
func copyVal(v Value) Value {
	switch x := v.(type) {
	case Struct:
		n := make(Struct, len(x))
		for i := range x {
			n[i] = copyVal(x[i])
		}
		return n
	case Array:
		n := make(Array, len(x))
		for i := range x {
			n[i] = copyVal(x[i])
		}
		return n
	}
	return v
}

// storeInto writes v into the slot, copying aggregates in place so that
// pointers to fields / elements stay valid.
func storeInto(p *Value, v Value) {
	switch x := v.(type) {
	case Struct:
		if old, ok := (*p).(Struct); ok && len(old) == len(x) {
			for i := range x {
				storeInto(&old[i], x[i])
			}
			return
		}
		*p = copyVal(x)
	case Array:
		if old, ok := (*p).(Array); ok && len(old) == len(x) {
			for i := range x {
				storeInto(&old[i], x[i])
			}
			return
		}
		*p = copyVal(x)
	default:
		*p = v
	}
}

// eq builds the Bool term for Go's == on two values of the same static type.
func (e *Engine) eq(a, b Value) *Term {
	tt := e.tt
	switch x := a.(type) {
	case *Term:
		y, ok := b.(*Term)
		if !ok {
			unsup("eq: term vs %T", b)
		}
		return tt.Bin(OpEq, x, y)
	case Str:
		y := b.(Str)
		if len(x.b) != len(y.b) {
			return tt.Bool(false)
		}
		r := tt.Bool(true)
		for i := range x.b {
			r = tt.BAnd(r, tt.Bin(OpEq, x.b[i], y.b[i]))
			if r.IsFalse() {
				return r
			}
		}
		return r
	case *Value:
		y, ok := b.(*Value)
		if !ok {
			return tt.Bool(false)
		}
		return tt.Bool(x == y)
	case *MapV:
		y, _ := b.(*MapV)
		return tt.Bool(x == y)
	case *Chan:
		y, _ := b.(*Chan)
		return tt.Bool(x == y)
	case *Closure:
		y, _ := b.(*Closure)
		return tt.Bool(x == y) // only nil comparisons are legal
	case *Opaque:
		y, _ := b.(*Opaque)
		return tt.Bool(x == y)
	case Iface:
		y, ok := b.(Iface)
		if !ok {
			unsup("eq: iface vs %T", b)
		}
		if x.T == nil || y.T == nil {
			return tt.Bool(x.T == nil && y.T == nil)
		}
		if !types.Identical(x.T, y.T) {
			return tt.Bool(false)
		}
		if !types.Comparable(x.T) {
			panic(&GoPanic{msg: "runtime error: comparing uncomparable type " + x.T.String()})
		}
		return e.eq(x.V, y.V)
	case Struct:
		y := b.(Struct)
		r := tt.Bool(true)
		for i := range x {
			r = tt.BAnd(r, e.eq(x[i], y[i]))
		}
		return r
	case Array:
		y := b.(Array)
		r := tt.Bool(true)
		for i := range x {
			r = tt.BAnd(r, e.eq(x[i], y[i]))
		}
		return r
	case Slice:
		y, _ := b.(Slice)
		// only comparison with nil is legal
		return tt.Bool(x.isNil() && y.isNil())
	case nil:
		return tt.Bool(b == nil)
	}
	unsup("eq on %T", a)
	return nil
}

func fmtVal(v Value) string {
	switch x := v.(type) {
	case *Term:
		return x.String()
	case Str:
		return fmt.Sprintf("%q", mustStr(x))
	case *Value:
		if x == nil {
			return "nil"
		}
		return fmt.Sprintf("&%p", x)
	case Slice:
		var sb strings.Builder
		sb.WriteString("[")
		for i, el := range x.a {
			if i > 0 {
				sb.WriteString(" ")
			}
			if i > 16 {
				sb.WriteString("…")
				break
			}
			sb.WriteString(fmtVal(el))
		}
		sb.WriteString("]")
		return sb.String()
	case Iface:
		if x.T == nil {
			return "nil-iface"
		}
		return fmt.Sprintf("iface(%v:%s)", x.T, fmtVal(x.V))
	case Struct:
		var sb strings.Builder
		sb.WriteString("{")
		for i, el := range x {
			if i > 0 {
				sb.WriteString(" ")
			}
			sb.WriteString(fmtVal(el))
		}
		sb.WriteString("}")
		return sb.String()
	}
	return fmt.Sprintf("%T", v)
}
