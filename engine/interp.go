package main

import (
	"fmt"
	"go/constant"
	"go/token"
	"go/types"
	"strings"

	"golang.org/x/tools/go/ssa"
)

// GoPanic is a panic of the interpreted program.
type GoPanic struct {
	val  Value
	msg  string // runtime error text, or rendered value
	site string
}

type abortRun struct{ why string }

type fnInfo struct {
	name     string
	intr     intrinsic
	skipInit bool
}

type deferred struct {
	fn   Value
	args []Value
	site ssa.Instruction
}

type Frame struct {
	t         *Thread
	fn        *ssa.Function
	env       map[ssa.Value]Value
	block     *ssa.BasicBlock
	prev      *ssa.BasicBlock
	defers    []deferred
	panicking bool
	panicVal  *GoPanic
	result    Value
	visits    map[int]int
	caller    *Frame
	curInstr  ssa.Instruction
}

func (fr *Frame) get(v ssa.Value) Value {
	switch x := v.(type) {
	case nil:
		return nil
	case *ssa.Const:
		return fr.t.run.constVal(x)
	case *ssa.Global:
		return fr.t.run.global(x)
	case *ssa.Function:
		return &Closure{Fn: x}
	case *ssa.Builtin:
		return &Closure{Builtin: x}
	}
	if r, ok := fr.env[v]; ok {
		return r
	}
	unsup("get: no value for %T %v in %v", v, v.Name(), fr.fn)
	return nil
}

func (r *Run) constVal(c *ssa.Const) Value {
	e := r.e
	t := c.Type()
	if c.Value == nil {
		return e.zero(t)
	}
	if b, ok := t.Underlying().(*types.Basic); ok {
		switch {
		case b.Info()&types.IsString != 0:
			return e.strConst(constant.StringVal(c.Value))
		case b.Info()&types.IsBoolean != 0:
			return e.tt.Bool(constant.BoolVal(c.Value))
		case b.Info()&types.IsInteger != 0:
			w, _, _ := widthOf(b)
			if i, ok := constant.Int64Val(constant.ToInt(c.Value)); ok {
				return e.tt.Const(w, uint64(i))
			}
			u, _ := constant.Uint64Val(constant.ToInt(c.Value))
			return e.tt.Const(w, u)
		case b.Info()&types.IsFloat != 0:
			f, _ := constant.Float64Val(c.Value)
			return &Opaque{kind: "float", data: f}
		}
	}
	if _, ok := t.Underlying().(*types.Interface); ok {
		return Iface{}
	}
	unsup("const of type %v", t)
	return nil
}

func (r *Run) global(g *ssa.Global) *Value {
	if p, ok := r.globals[g]; ok {
		return p
	}
	p := new(Value)
	*p = r.e.zero(g.Type().(*types.Pointer).Elem())
	r.globals[g] = p
	if g.Pkg != nil && !r.initDone[g.Pkg] && !r.initRunning[g.Pkg] {
		// reading a global of a package whose init we did not run
		if !r.e.P.initAllowed(g.Pkg) {
			r.foreignGlobals[g.String()] = true
		}
	}
	return p
}

// ---------------------------------------------------------------------------

func (t *Thread) callValue(fnv Value, args []Value, site ssa.Instruction) Value {
	switch f := fnv.(type) {
	case *Closure:
		if f == nil {
			panic(&GoPanic{msg: "runtime error: invalid memory address or nil pointer dereference (nil func call)"})
		}
		if f.Builtin != nil {
			return t.callBuiltin(f.Builtin, args, site)
		}
		if f.Fn == nil {
			return t.opaqueMethod(f.Env[0].(*Opaque), mustStr(f.Env[1].(Str)), args)
		}
		return t.callFn(f.Fn, args, f.Env, site)
	}
	unsup("call of %T", fnv)
	return nil
}

func (t *Thread) callFn(fn *ssa.Function, args []Value, env []Value, site ssa.Instruction) Value {
	r := t.run
	fi, ok := r.e.fnInfo[fn]
	if !ok {
		fi = &fnInfo{name: fn.String()}
		fi.intr = intrinsics[fi.name]
		fi.skipInit = fn.Synthetic == "package initializer" && fn.Pkg != nil && !r.e.P.initAllowed(fn.Pkg)
		r.e.fnInfo[fn] = fi
	}
	name := fi.name
	if fi.intr != nil {
		r.intrHit[name]++
		return fi.intr(t, args)
	}
	if fi.skipInit {
		return nil
	}
	if fn.Blocks == nil {
		// generic instantiation bodies are built lazily by go/ssa; external functions have none
		unsup("external function without body: %s", name)
	}
	if t.depth > r.e.cfg.MaxDepth {
		panic(abortRun{"BOUND:depth " + name})
	}
	r.fnHit[fn]++
	fr := &Frame{t: t, fn: fn, env: make(map[ssa.Value]Value, 16), caller: t.top}
	for i, p := range fn.Params {
		fr.env[p] = args[i]
	}
	for i, fv := range fn.FreeVars {
		fr.env[fv] = env[i]
	}
	for _, l := range fn.Locals {
		p := new(Value)
		fr.env[l] = p
	}
	fr.block = fn.Blocks[0]
	t.top = fr
	t.depth++
	defer func() {
		t.depth--
		t.top = fr.caller
	}()
	t.runFrame(fr)
	return fr.result
}

func (t *Thread) runFrame(fr *Frame) {
	defer func() {
		if fr.block == nil {
			return // normal return
		}
		x := recover()
		switch p := x.(type) {
		case *GoPanic:
			fr.panicking = true
			fr.panicVal = p
			if p.site == "" && fr.curInstr != nil {
				p.site = t.run.e.P.pos(fr.curInstr.Pos()) + " in " + fr.fn.String()
			}
			t.runDefers(fr)
			// recovered: results come from named result locals via the Recover block
			if fr.fn.Recover != nil {
				fr.block = fr.fn.Recover
				fr.prev = nil
				t.runFrame(fr)
			} else {
				fr.result = t.run.e.zeroResults(fr.fn)
			}
		default:
			panic(x)
		}
	}()
	for {
		if fr.visits == nil {
			fr.visits = map[int]int{}
		}
		fr.visits[fr.block.Index]++
		if fr.visits[fr.block.Index] > t.run.e.cfg.MaxLoop {
			panic(abortRun{fmt.Sprintf("BOUND:loop %s block %d", fr.fn, fr.block.Index)})
		}
	instrs:
		for _, instr := range fr.block.Instrs {
			fr.curInstr = instr
			t.run.steps++
			if t.run.steps > t.run.e.cfg.MaxSteps {
				panic(abortRun{"BOUND:steps"})
			}
			switch t.visit(fr, instr) {
			case kReturn:
				fr.block = nil
				return
			case kJump:
				break instrs
			}
		}
	}
}

func (e *Engine) zeroResults(fn *ssa.Function) Value {
	res := fn.Signature.Results()
	switch res.Len() {
	case 0:
		return nil
	case 1:
		return e.zero(res.At(0).Type())
	}
	return e.zero(res)
}

// runDefers runs deferred calls LIFO; re-panics if still panicking.
func (t *Thread) runDefers(fr *Frame) {
	for len(fr.defers) > 0 {
		d := fr.defers[len(fr.defers)-1]
		fr.defers = fr.defers[:len(fr.defers)-1]
		t.runDefer(fr, d)
	}
	if fr.panicking {
		panic(fr.panicVal)
	}
}

func (t *Thread) runDefer(fr *Frame, d deferred) {
	ok := false
	defer func() {
		if !ok {
			x := recover()
			if p, isP := x.(*GoPanic); isP {
				// deferred call panicked: replaces current panic
				fr.panicking = true
				fr.panicVal = p
				return
			}
			panic(x)
		}
	}()
	// mark the frame that is running deferred calls so that recover() can find it
	saved := t.deferringFrame
	t.deferringFrame = fr
	t.callValue(d.fn, d.args, d.site)
	t.deferringFrame = saved
	ok = true
}

type cont int

const (
	kNext cont = iota
	kReturn
	kJump
)

func (t *Thread) prepareCall(fr *Frame, c *ssa.CallCommon) (Value, []Value) {
	var args []Value
	var fnv Value
	if c.Method == nil {
		fnv = fr.get(c.Value)
	} else {
		recv := fr.get(c.Value).(Iface)
		if recv.T == nil {
			panic(&GoPanic{msg: "runtime error: invalid memory address or nil pointer dereference (method call on nil interface)"})
		}
		if op, ok := recv.V.(*Opaque); ok {
			// engine-owned object: dispatch by method name
			fnv = &Closure{Fn: nil, Env: []Value{op, t.run.e.strConst(c.Method.Name())}}
			args = append(args, recv.V)
			for _, a := range c.Args {
				args = append(args, fr.get(a))
			}
			return fnv, args
		}
		m := t.run.e.P.prog.LookupMethod(recv.T, c.Method.Pkg(), c.Method.Name())
		if m == nil {
			unsup("method %s not found on %v", c.Method.Name(), recv.T)
		}
		fnv = &Closure{Fn: m}
		args = append(args, recv.V)
	}
	for _, a := range c.Args {
		args = append(args, fr.get(a))
	}
	return fnv, args
}

func (t *Thread) doCall(fnv Value, args []Value, site ssa.Instruction) Value {
	return t.callValue(fnv, args, site)
}

func (t *Thread) visit(fr *Frame, instr ssa.Instruction) cont {
	r := t.run
	e := r.e
	switch in := instr.(type) {
	case *ssa.DebugRef:
	case *ssa.UnOp:
		fr.env[in] = t.unop(fr, in)
	case *ssa.BinOp:
		fr.env[in] = t.binop(in.Op, in.X.Type(), fr.get(in.X), fr.get(in.Y))
	case *ssa.Call:
		fnv, args := t.prepareCall(fr, &in.Call)
		fr.env[in] = t.doCall(fnv, args, in)
	case *ssa.ChangeInterface:
		fr.env[in] = fr.get(in.X)
	case *ssa.ChangeType:
		fr.env[in] = fr.get(in.X)
	case *ssa.Convert:
		fr.env[in] = t.conv(in.Type(), in.X.Type(), fr.get(in.X))
	case *ssa.MultiConvert:
		fr.env[in] = t.conv(in.Type(), in.X.Type(), fr.get(in.X))
	case *ssa.SliceToArrayPointer:
		s := fr.get(in.X).(Slice)
		n := int(in.Type().Underlying().(*types.Pointer).Elem().Underlying().(*types.Array).Len())
		if len(s.a) < n {
			panic(&GoPanic{msg: "runtime error: cannot convert slice to array pointer: length too short"})
		}
		if s.isNil() && n == 0 {
			fr.env[in] = (*Value)(nil)
		} else {
			p := new(Value)
			*p = Array(s.a[:n:n])
			fr.env[in] = p
		}
	case *ssa.MakeInterface:
		fr.env[in] = Iface{T: in.X.Type(), V: fr.get(in.X)}
	case *ssa.Extract:
		fr.env[in] = fr.get(in.Tuple).(Tuple)[in.Index]
	case *ssa.Slice:
		fr.env[in] = t.sliceOp(fr, in)
	case *ssa.Return:
		switch len(in.Results) {
		case 0:
		case 1:
			fr.result = fr.get(in.Results[0])
		default:
			res := make(Tuple, len(in.Results))
			for i, x := range in.Results {
				res[i] = fr.get(x)
			}
			fr.result = res
		}
		return kReturn
	case *ssa.RunDefers:
		t.runDefers(fr)
	case *ssa.Panic:
		v := fr.get(in.X)
		panic(&GoPanic{val: v, msg: "panic: " + t.renderPanic(v)})
	case *ssa.Send:
		t.chanSend(fr.get(in.Chan).(*Chan), fr.get(in.X))
	case *ssa.Store:
		p := fr.get(in.Addr).(*Value)
		t.store(p, fr.get(in.Val))
	case *ssa.If:
		c := fr.get(in.Cond).(*Term)
		succ := 1
		if r.branch(c, "if") {
			succ = 0
		}
		fr.prev, fr.block = fr.block, fr.block.Succs[succ]
		return kJump
	case *ssa.Jump:
		fr.prev, fr.block = fr.block, fr.block.Succs[0]
		return kJump
	case *ssa.Defer:
		fnv, args := t.prepareCall(fr, &in.Call)
		if in.DeferStack != nil {
			unsup("defer with DeferStack")
		}
		fr.defers = append(fr.defers, deferred{fn: fnv, args: args, site: in})
	case *ssa.Go:
		fnv, args := t.prepareCall(fr, &in.Call)
		t.spawn(fnv, args, in)
	case *ssa.MakeChan:
		n := r.concretize(fr.get(in.Size).(*Term), "chan size")
		fr.env[in] = r.newChan(int(n))
	case *ssa.Alloc:
		var p *Value
		if in.Heap {
			p = new(Value)
			fr.env[in] = p
			if r.raceOn {
				r.heapSlots[p] = true
			}
		} else {
			p = fr.env[in].(*Value)
		}
		*p = e.zero(in.Type().Underlying().(*types.Pointer).Elem())
	case *ssa.MakeSlice:
		lenT := fr.get(in.Len).(*Term)
		capT := fr.get(in.Cap).(*Term)
		// run-time check: 0 <= len <= cap, and cap within the engine's allocation limit
		r.checkMake(t, fr, lenT, capT)
		n := int(r.concretize(lenT, "make len"))
		c := int(r.concretize(capT, "make cap"))
		a := make([]Value, c)
		el := in.Type().Underlying().(*types.Slice).Elem()
		z := e.zero(el)
		for i := range a {
			a[i] = copyVal(z)
		}
		r.noteHeapSlice(a)
		fr.env[in] = mkSlice(a[:n])
	case *ssa.MakeMap:
		m := &MapV{}
		fr.env[in] = m
	case *ssa.Range:
		fr.env[in] = t.rangeIter(fr.get(in.X))
	case *ssa.Next:
		fr.env[in] = t.iterNext(fr.get(in.Iter).(*Opaque), in.IsString)
	case *ssa.FieldAddr:
		p := fr.get(in.X).(*Value)
		if p == nil {
			panic(&GoPanic{msg: "runtime error: invalid memory address or nil pointer dereference"})
		}
		s, ok := (*p).(Struct)
		if !ok {
			unsup("FieldAddr on %T in %v", *p, fr.fn)
		}
		fr.env[in] = &s[in.Field]
	case *ssa.Field:
		fr.env[in] = copyVal(fr.get(in.X).(Struct)[in.Field])
	case *ssa.IndexAddr:
		x := fr.get(in.X)
		idx := fr.get(in.Index).(*Term)
		switch xv := x.(type) {
		case Slice:
			i := t.boundsIndex(idx, len(xv.a), in.Index.Type())
			fr.env[in] = &xv.a[i]
		case *Value:
			if xv == nil {
				panic(&GoPanic{msg: "runtime error: invalid memory address or nil pointer dereference"})
			}
			arr := (*xv).(Array)
			if !idx.IsConst() && onlyLoaded(in) && allConstScalars(arr) {
				// constant lookup table read at a symbolic index: keep it symbolic (ite over runs)
				fr.env[in] = t.symTableRead(arr, idx, in.Index.Type())
				break
			}
			i := t.boundsIndex(idx, len(arr), in.Index.Type())
			fr.env[in] = &arr[i]
		default:
			unsup("IndexAddr on %T", x)
		}
	case *ssa.Index:
		x := fr.get(in.X)
		idx := fr.get(in.Index).(*Term)
		switch xv := x.(type) {
		case Array:
			i := t.boundsIndex(idx, len(xv), in.Index.Type())
			fr.env[in] = copyVal(xv[i])
		case Str:
			i := t.boundsIndex(idx, len(xv.b), in.Index.Type())
			fr.env[in] = xv.b[i]
		default:
			unsup("Index on %T", x)
		}
	case *ssa.Lookup:
		x := fr.get(in.X)
		switch xv := x.(type) {
		case Str:
			idx := fr.get(in.Index).(*Term)
			i := t.boundsIndex(idx, len(xv.b), in.Index.Type())
			fr.env[in] = xv.b[i]
		case *MapV:
			v, ok := t.mapLookup(xv, fr.get(in.Index))
			if !ok {
				v = e.zero(in.X.Type().Underlying().(*types.Map).Elem())
			}
			if in.CommaOk {
				fr.env[in] = Tuple{copyVal(v), e.tt.Bool(ok)}
			} else {
				fr.env[in] = copyVal(v)
			}
		default:
			unsup("Lookup on %T", x)
		}
	case *ssa.MapUpdate:
		m := fr.get(in.Map).(*MapV)
		if m == nil {
			panic(&GoPanic{msg: "assignment to entry in nil map"})
		}
		t.mapUpdate(m, fr.get(in.Key), fr.get(in.Value))
	case *ssa.TypeAssert:
		fr.env[in] = t.typeAssert(in, fr.get(in.X).(Iface))
	case *ssa.MakeClosure:
		cl := &Closure{Fn: in.Fn.(*ssa.Function)}
		for _, b := range in.Bindings {
			cl.Env = append(cl.Env, fr.get(b))
		}
		fr.env[in] = cl
	case *ssa.Phi:
		for i, pred := range in.Block().Preds {
			if fr.prev == pred {
				fr.env[in] = fr.get(in.Edges[i])
				break
			}
		}
	case *ssa.Select:
		fr.env[in] = t.selectOp(fr, in)
	default:
		unsup("instruction %T", instr)
	}
	return kNext
}

func (t *Thread) renderPanic(v Value) string {
	if i, ok := v.(Iface); ok {
		if s, ok := i.V.(Str); ok {
			return mustStr(s)
		}
		if i.T != nil {
			return "value of type " + i.T.String()
		}
	}
	return fmtVal(v)
}

// ---------------------------------------------------------------------------
// memory

func (t *Thread) load(p *Value) Value {
	if p == nil {
		panic(&GoPanic{msg: "runtime error: invalid memory address or nil pointer dereference"})
	}
	if t.run.raceOn {
		t.logAccess(p, false)
	}
	return copyVal(*p)
}

func (t *Thread) store(p *Value, v Value) {
	if p == nil {
		panic(&GoPanic{msg: "runtime error: invalid memory address or nil pointer dereference"})
	}
	if t.run.raceOn {
		t.logAccess(p, true)
	}
	storeInto(p, v)
}

// boundsIndex checks 0 <= idx < n (forking a panic path if violable) and
// returns a concrete index (case-splitting a symbolic one).
func (t *Thread) boundsIndex(idx *Term, n int, ityp types.Type) int {
	r := t.run
	tt := r.e.tt
	_, signed, _ := widthOf(ityp)
	if idx.w < 64 {
		if signed {
			idx = tt.SExt(idx, 64)
		} else {
			idx = tt.ZExt(idx, 64)
		}
	}
	var in *Term
	nT := tt.Const(idx.w, uint64(n))
	if signed {
		in = tt.BAnd(tt.Bin(OpSle, tt.Const(idx.w, 0), idx), tt.Bin(OpSlt, idx, nT))
	} else {
		in = tt.Bin(OpUlt, idx, nT)
	}
	if !r.branch(in, "bounds") {
		panic(&GoPanic{msg: fmt.Sprintf("runtime error: index out of range [%s] with length %d", idx, n)})
	}
	return int(r.concretize(idx, "index"))
}

func (t *Thread) sliceOp(fr *Frame, in *ssa.Slice) Value {
	r := t.run
	tt := r.e.tt
	x := fr.get(in.X)
	var length, capacity int
	var back []Value
	var str Str
	isStr := false
	switch xv := x.(type) {
	case Slice:
		back = xv.a
		length, capacity = len(xv.a), cap(xv.a)
	case Str:
		isStr = true
		str = xv
		length, capacity = len(xv.b), len(xv.b)
	case *Value:
		if xv == nil {
			panic(&GoPanic{msg: "runtime error: slice of nil array pointer"})
		}
		arr := (*xv).(Array)
		back = arr
		length, capacity = len(arr), len(arr)
	default:
		unsup("slice of %T", x)
	}
	getIdx := func(v ssa.Value, def int) *Term {
		if v == nil {
			return tt.Const(64, uint64(def))
		}
		tm := fr.get(v).(*Term)
		_, signed, _ := widthOf(v.Type())
		if tm.w < 64 {
			if signed {
				tm = tt.SExt(tm, 64)
			} else {
				tm = tt.ZExt(tm, 64)
			}
		}
		return tm
	}
	lo := getIdx(in.Low, 0)
	hi := getIdx(in.High, length)
	mx := getIdx(in.Max, capacity)
	limit := capacity
	if isStr {
		limit = length
	}
	// 0 <= lo <= hi <= max <= cap
	ok := tt.BAnd(tt.Bin(OpSle, tt.Const(64, 0), lo), tt.Bin(OpSle, lo, hi))
	ok = tt.BAnd(ok, tt.Bin(OpSle, hi, mx))
	ok = tt.BAnd(ok, tt.Bin(OpSle, mx, tt.Const(64, uint64(limit))))
	if !r.branch(ok, "slice bounds") {
		panic(&GoPanic{msg: fmt.Sprintf("runtime error: slice bounds out of range [%s:%s:%s] with capacity %d", lo, hi, mx, limit)})
	}
	l := int(r.concretize(lo, "slice lo"))
	h := int(r.concretize(hi, "slice hi"))
	m := int(r.concretize(mx, "slice max"))
	if isStr {
		return Str{str.b[l:h]}
	}
	if sl, isSl := x.(Slice); isSl && sl.isNil() {
		return Slice{}
	}
	return mkSlice(back[l:h:m])
}

func (t *Thread) mapLookup(m *MapV, key Value) (Value, bool) {
	if m == nil {
		return nil, false
	}
	if t.run.raceOn {
		t.logAccess(&m.slot, false)
	}
	for i, k := range m.keys {
		if t.run.branch(t.run.e.eq(k, key), "mapkey") {
			return m.vals[i], true
		}
	}
	return nil, false
}

func (t *Thread) mapUpdate(m *MapV, key, val Value) {
	if t.run.raceOn {
		t.logAccess(&m.slot, true)
	}
	for i, k := range m.keys {
		if t.run.branch(t.run.e.eq(k, key), "mapkey") {
			m.vals[i] = copyVal(val)
			return
		}
	}
	m.keys = append(m.keys, copyVal(key))
	m.vals = append(m.vals, copyVal(val))
}

func (t *Thread) mapDelete(m *MapV, key Value) {
	if m == nil {
		return
	}
	if t.run.raceOn {
		t.logAccess(&m.slot, true)
	}
	for i, k := range m.keys {
		if t.run.branch(t.run.e.eq(k, key), "mapkey") {
			m.keys = append(m.keys[:i:i], m.keys[i+1:]...)
			m.vals = append(m.vals[:i:i], m.vals[i+1:]...)
			return
		}
	}
}

// ---------------------------------------------------------------------------
// operators

func (t *Thread) unop(fr *Frame, in *ssa.UnOp) Value {
	tt := t.run.e.tt
	x := fr.get(in.X)
	switch in.Op {
	case token.MUL: // load
		if sp, ok := x.(symLoaded); ok {
			return sp.v
		}
		return t.load(x.(*Value))
	case token.NOT:
		return tt.BNot(x.(*Term))
	case token.SUB:
		if tm, ok := x.(*Term); ok {
			return tt.Un(OpNeg, tm)
		}
	case token.XOR:
		return tt.Un(OpNot, x.(*Term))
	case token.ARROW:
		v, ok := t.chanRecv(x.(*Chan), in.Type(), in.CommaOk)
		if in.CommaOk {
			return Tuple{v, tt.Bool(ok)}
		}
		return v
	}
	unsup("unop %v on %T", in.Op, x)
	return nil
}

func (t *Thread) binop(op token.Token, xt types.Type, x, y Value) Value {
	r := t.run
	tt := r.e.tt
	switch op {
	case token.EQL:
		return r.e.eq(x, y)
	case token.NEQ:
		return tt.BNot(r.e.eq(x, y))
	}
	switch a := x.(type) {
	case *Term:
		b := y.(*Term)
		_, signed, _ := widthOf(xt)
		if a.w == 0 {
			switch op {
			case token.AND, token.LAND:
				return tt.BAnd(a, b)
			case token.OR, token.LOR:
				return tt.BOr(a, b)
			}
			unsup("bool binop %v", op)
		}
		switch op {
		case token.ADD:
			return tt.Bin(OpAdd, a, b)
		case token.SUB:
			return tt.Bin(OpSub, a, b)
		case token.MUL:
			return tt.Bin(OpMul, a, b)
		case token.QUO, token.REM:
			if !r.branch(tt.BNot(tt.Bin(OpEq, b, tt.Const(b.w, 0))), "div0") {
				panic(&GoPanic{msg: "runtime error: integer divide by zero"})
			}
			if signed {
				if op == token.QUO {
					return tt.Bin(OpSDiv, a, b)
				}
				return tt.Bin(OpSRem, a, b)
			}
			if op == token.QUO {
				return tt.Bin(OpUDiv, a, b)
			}
			return tt.Bin(OpURem, a, b)
		case token.AND:
			return tt.Bin(OpAnd, a, b)
		case token.OR:
			return tt.Bin(OpOr, a, b)
		case token.XOR:
			return tt.Bin(OpXor, a, b)
		case token.AND_NOT:
			return tt.Bin(OpAnd, a, tt.Un(OpNot, b))
		case token.SHL, token.SHR:
			return t.shift(op, a, b, signed)
		case token.LSS:
			if signed {
				return tt.Bin(OpSlt, a, b)
			}
			return tt.Bin(OpUlt, a, b)
		case token.LEQ:
			if signed {
				return tt.Bin(OpSle, a, b)
			}
			return tt.Bin(OpUle, a, b)
		case token.GTR:
			if signed {
				return tt.Bin(OpSlt, b, a)
			}
			return tt.Bin(OpUlt, b, a)
		case token.GEQ:
			if signed {
				return tt.Bin(OpSle, b, a)
			}
			return tt.Bin(OpUle, b, a)
		}
	case Str:
		b := y.(Str)
		switch op {
		case token.ADD:
			n := make([]*Term, 0, len(a.b)+len(b.b))
			n = append(n, a.b...)
			n = append(n, b.b...)
			return Str{n}
		case token.LSS, token.LEQ, token.GTR, token.GEQ:
			return t.strCompare(op, a, b)
		}
	}
	unsup("binop %v on %T", op, x)
	return nil
}

func (t *Thread) strCompare(op token.Token, a, b Str) Value {
	// lexicographic compare, decided by branching byte by byte
	r := t.run
	tt := r.e.tt
	n := len(a.b)
	if len(b.b) < n {
		n = len(b.b)
	}
	cmp := 0
	for i := 0; i < n; i++ {
		if r.branch(tt.Bin(OpEq, a.b[i], b.b[i]), "strcmp") {
			continue
		}
		if r.branch(tt.Bin(OpUlt, a.b[i], b.b[i]), "strcmp") {
			cmp = -1
		} else {
			cmp = 1
		}
		break
	}
	if cmp == 0 {
		switch {
		case len(a.b) < len(b.b):
			cmp = -1
		case len(a.b) > len(b.b):
			cmp = 1
		}
	}
	switch op {
	case token.LSS:
		return tt.Bool(cmp < 0)
	case token.LEQ:
		return tt.Bool(cmp <= 0)
	case token.GTR:
		return tt.Bool(cmp > 0)
	}
	return tt.Bool(cmp >= 0)
}

func (t *Thread) shift(op token.Token, a, b *Term, signed bool) Value {
	tt := t.run.e.tt
	// the shift count is unsigned in SSA after type-checking, or a signed value
	// that must be non-negative (negative panics) — counts here are never negative
	// in the anchored code; a negative constant would have been rejected by the compiler.
	var cnt *Term
	var big *Term = tt.Bool(false)
	switch {
	case b.w == a.w:
		cnt = b
	case b.w < a.w:
		cnt = tt.ZExt(b, a.w)
	default:
		big = tt.Bin(OpUle, tt.Const(b.w, uint64(a.w)), b)
		cnt = tt.Extract(b, a.w-1, 0)
	}
	var res *Term
	switch {
	case op == token.SHL:
		res = tt.Bin(OpShl, a, cnt)
		res = tt.Ite(big, tt.Const(a.w, 0), res)
	case signed:
		res = tt.Bin(OpAShr, a, cnt)
		fill := tt.Bin(OpAShr, a, tt.Const(a.w, uint64(a.w-1)))
		res = tt.Ite(big, fill, res)
	default:
		res = tt.Bin(OpLShr, a, cnt)
		res = tt.Ite(big, tt.Const(a.w, 0), res)
	}
	return res
}

func (t *Thread) conv(dst, src types.Type, x Value) Value {
	r := t.run
	tt := r.e.tt
	ud, us := dst.Underlying(), src.Underlying()
	switch xv := x.(type) {
	case *Term:
		if db, ok := ud.(*types.Basic); ok {
			if db.Info()&types.IsString != 0 {
				// string(rune)
				return t.runeToString(xv, us)
			}
			if dw, _, ok := widthOf(db); ok && dw > 0 {
				_, ssigned, _ := widthOf(us)
				switch {
				case dw == xv.w:
					return xv
				case dw < xv.w:
					return tt.Extract(xv, dw-1, 0)
				case ssigned:
					return tt.SExt(xv, dw)
				default:
					return tt.ZExt(xv, dw)
				}
			}
			if db.Kind() == types.UnsafePointer {
				unsup("conversion to unsafe.Pointer")
			}
			if db.Info()&types.IsFloat != 0 {
				unsup("int to float conversion")
			}
		}
	case Str:
		if ds, ok := ud.(*types.Slice); ok {
			eb := ds.Elem().Underlying().(*types.Basic)
			if eb.Kind() == types.Uint8 {
				a := make([]Value, len(xv.b))
				for i, b := range xv.b {
					a[i] = b
				}
				r.noteHeapSlice(a)
				return mkSlice(a)
			}
			if eb.Kind() == types.Int32 {
				return t.stringToRunes(xv)
			}
		}
		if db, ok := ud.(*types.Basic); ok && db.Info()&types.IsString != 0 {
			return xv
		}
	case Slice:
		if db, ok := ud.(*types.Basic); ok && db.Info()&types.IsString != 0 {
			eb := us.(*types.Slice).Elem().Underlying().(*types.Basic)
			if eb.Kind() == types.Uint8 {
				b := make([]*Term, len(xv.a))
				for i, v := range xv.a {
					if r.raceOn {
						t.logAccess(&xv.a[i], false)
					}
					b[i] = v.(*Term)
				}
				return Str{b}
			}
			if eb.Kind() == types.Int32 {
				return t.runesToString(xv)
			}
		}
		if _, ok := ud.(*types.Slice); ok {
			return xv
		}
	case *Value:
		if _, ok := ud.(*types.Pointer); ok {
			return xv
		}
		if db, ok := ud.(*types.Basic); ok && db.Kind() == types.UnsafePointer {
			return xv
		}
	}
	if types.Identical(ud, us) {
		return x
	}
	unsup("conversion %v -> %v (%T)", src, dst, x)
	return nil
}

// utf8 conversions run unicode/utf8's own SSA on (possibly symbolic) bytes.
func (t *Thread) stringToRunes(s Str) Value {
	tt := t.run.e.tt
	var out []Value
	if cs, ok := concreteStr(s); ok {
		for _, rn := range []rune(cs) {
			out = append(out, tt.Const(32, uint64(uint32(rn))))
		}
		t.run.noteHeapSlice(out)
		return mkSlice(out)
	}
	dec := t.run.e.P.fn("unicode/utf8", "DecodeRuneInString")
	for i := 0; i < len(s.b); {
		res := t.callFn(dec, []Value{Str{s.b[i:]}}, nil, nil).(Tuple)
		out = append(out, res[0])
		sz := int(t.run.concretize(res[1].(*Term), "rune size"))
		i += sz
	}
	if out == nil {
		out = []Value{}
	}
	t.run.noteHeapSlice(out)
	return mkSlice(out)
}

func (t *Thread) runeToString(rn *Term, src types.Type) Value {
	tt := t.run.e.tt
	_, signed, _ := widthOf(src)
	var r32 *Term
	switch {
	case rn.w == 32:
		r32 = rn
	case rn.w < 32:
		if signed {
			r32 = tt.SExt(rn, 32)
		} else {
			r32 = tt.ZExt(rn, 32)
		}
	default:
		// out-of-range becomes U+FFFD; handled by AppendRune on the truncated value when it fits
		fits := tt.Bin(OpUle, rn, tt.Const(rn.w, 0x10FFFF))
		if t.run.branch(fits, "rune range") {
			r32 = tt.Extract(rn, 31, 0)
		} else {
			r32 = tt.Const(32, 0xFFFD)
		}
	}
	app := t.run.e.P.fn("unicode/utf8", "AppendRune")
	res := t.callFn(app, []Value{Slice{}, r32}, nil, nil).(Slice)
	b := make([]*Term, len(res.a))
	for i, v := range res.a {
		b[i] = v.(*Term)
	}
	return Str{b}
}

func (t *Thread) runesToString(s Slice) Value {
	var b []*Term
	allConst := true
	for _, v := range s.a {
		if !v.(*Term).IsConst() {
			allConst = false
		}
	}
	if allConst {
		rs := make([]rune, len(s.a))
		for i, v := range s.a {
			rs[i] = rune(int32(uint32(v.(*Term).c)))
		}
		return t.run.e.strConst(string(rs))
	}
	for _, v := range s.a {
		x := t.runeToString(v.(*Term), types.Typ[types.Int32]).(Str)
		b = append(b, x.b...)
	}
	return Str{b}
}

func (t *Thread) typeAssert(in *ssa.TypeAssert, x Iface) Value {
	e := t.run.e
	ok := false
	if x.T != nil {
		if it, isI := in.AssertedType.Underlying().(*types.Interface); isI {
			ok = e.P.implements(x.T, it)
		} else {
			ok = types.Identical(x.T, in.AssertedType)
		}
	}
	var v Value
	if ok {
		if _, isI := in.AssertedType.Underlying().(*types.Interface); isI {
			v = x
		} else {
			v = x.V
		}
	} else if in.CommaOk {
		v = e.zero(in.AssertedType)
	}
	if in.CommaOk {
		return Tuple{v, e.tt.Bool(ok)}
	}
	if !ok {
		var have string
		if x.T == nil {
			have = "nil"
		} else {
			have = x.T.String()
		}
		panic(&GoPanic{msg: fmt.Sprintf("interface conversion: interface is %s, not %s", have, in.AssertedType)})
	}
	return v
}

// ---------------------------------------------------------------------------
// range iterators

type mapIter struct {
	keys, vals []Value
	i          int
}
type strIter struct {
	s Str
	i int
}

func (t *Thread) rangeIter(x Value) Value {
	switch xv := x.(type) {
	case *MapV:
		it := &mapIter{}
		if xv != nil {
			if t.run.raceOn {
				t.logAccess(&xv.slot, false)
			}
			it.keys = append([]Value{}, xv.keys...)
			it.vals = append([]Value{}, xv.vals...)
		}
		return &Opaque{kind: "mapiter", data: it}
	case Str:
		return &Opaque{kind: "striter", data: &strIter{s: xv}}
	}
	unsup("range over %T", x)
	return nil
}

func (t *Thread) iterNext(o *Opaque, isString bool) Value {
	tt := t.run.e.tt
	switch it := o.data.(type) {
	case *mapIter:
		if it.i >= len(it.keys) {
			return Tuple{tt.Bool(false), nil, nil}
		}
		k, v := it.keys[it.i], it.vals[it.i]
		it.i++
		return Tuple{tt.Bool(true), copyVal(k), copyVal(v)}
	case *strIter:
		if it.i >= len(it.s.b) {
			return Tuple{tt.Bool(false), tt.Const(64, 0), tt.Const(32, 0)}
		}
		dec := t.run.e.P.fn("unicode/utf8", "DecodeRuneInString")
		res := t.callFn(dec, []Value{Str{it.s.b[it.i:]}}, nil, nil).(Tuple)
		idx := it.i
		it.i += int(t.run.concretize(res[1].(*Term), "rune size"))
		return Tuple{tt.Bool(true), tt.Const(64, uint64(idx)), res[0]}
	}
	unsup("next on %v", o.kind)
	return nil
}

// ---------------------------------------------------------------------------
// builtins

func (t *Thread) callBuiltin(b *ssa.Builtin, args []Value, site ssa.Instruction) Value {
	r := t.run
	tt := r.e.tt
	switch b.Name() {
	case "len":
		switch x := args[0].(type) {
		case Str:
			return tt.Const(64, uint64(len(x.b)))
		case Slice:
			return tt.Const(64, uint64(len(x.a)))
		case Array:
			return tt.Const(64, uint64(len(x)))
		case *MapV:
			if x == nil {
				return tt.Const(64, 0)
			}
			if r.raceOn {
				t.logAccess(&x.slot, false)
			}
			return tt.Const(64, uint64(len(x.keys)))
		case *Chan:
			if x == nil {
				return tt.Const(64, 0)
			}
			return tt.Const(64, uint64(len(x.buf)))
		case *Value:
			if x == nil {
				return tt.Const(64, 0)
			}
			return tt.Const(64, uint64(len((*x).(Array))))
		}
	case "cap":
		switch x := args[0].(type) {
		case Slice:
			return tt.Const(64, uint64(cap(x.a)))
		case Array:
			return tt.Const(64, uint64(len(x)))
		case *Chan:
			if x == nil {
				return tt.Const(64, 0)
			}
			return tt.Const(64, uint64(x.cap))
		}
	case "append":
		dst := args[0].(Slice)
		var src []Value
		switch s := args[1].(type) {
		case Slice:
			src = s.a
			if r.raceOn {
				for i := range s.a {
					t.logAccess(&s.a[i], false)
				}
			}
		case Str:
			src = make([]Value, len(s.b))
			for i, x := range s.b {
				src[i] = x
			}
		default:
			unsup("append src %T", args[1])
		}
		if len(src) == 0 {
			return dst
		}
		n := len(dst.a)
		if n+len(src) <= cap(dst.a) {
			out := dst.a[:n+len(src)]
			for i, v := range src {
				if r.raceOn {
					t.logAccess(&out[n+i], true)
				}
				out[n+i] = copyVal(v)
			}
			return mkSlice(out)
		}
		// reallocate: Go's growth rule without size-class rounding
		nc := cap(dst.a) * 2
		if cap(dst.a) >= 256 {
			nc = cap(dst.a) + (cap(dst.a)+3*256)/4
		}
		if nc < n+len(src) {
			nc = n + len(src)
		}
		out := make([]Value, n+len(src), nc)
		for i, v := range dst.a {
			if r.raceOn {
				t.logAccess(&dst.a[i], false)
			}
			out[i] = copyVal(v)
		}
		for i, v := range src {
			out[n+i] = copyVal(v)
		}
		// zero-fill spare capacity lazily: elements beyond len are set when exposed by re-slicing
		full := out[:nc]
		if n+len(src) < nc {
			var z Value
			if len(out) > 0 {
				z = zeroLike(out[0], r.e)
			}
			for i := n + len(src); i < nc; i++ {
				full[i] = copyVal(z)
			}
		}
		r.noteHeapSlice(full)
		return mkSlice(out)
	case "copy":
		dst := args[0].(Slice)
		var src []Value
		switch s := args[1].(type) {
		case Slice:
			src = s.a
		case Str:
			src = make([]Value, len(s.b))
			for i, x := range s.b {
				src[i] = x
			}
		}
		n := len(dst.a)
		if len(src) < n {
			n = len(src)
		}
		tmp := make([]Value, n)
		for i := 0; i < n; i++ {
			if r.raceOn {
				if s, ok := args[1].(Slice); ok {
					t.logAccess(&s.a[i], false)
				}
			}
			tmp[i] = copyVal(src[i])
		}
		for i := 0; i < n; i++ {
			if r.raceOn {
				t.logAccess(&dst.a[i], true)
			}
			dst.a[i] = tmp[i]
		}
		return tt.Const(64, uint64(n))
	case "delete":
		t.mapDelete(args[0].(*MapV), args[1])
		return nil
	case "close":
		t.chanClose(args[0].(*Chan))
		return nil
	case "panic":
		panic(&GoPanic{val: args[0], msg: "panic: " + t.renderPanic(args[0])})
	case "recover":
		return t.doRecover()
	case "print", "println":
		return nil
	case "min", "max":
		res := args[0].(*Term)
		_, signed, _ := widthOf(site.(*ssa.Call).Type())
		for _, a := range args[1:] {
			at := a.(*Term)
			var less *Term
			if signed {
				less = tt.Bin(OpSlt, at, res)
			} else {
				less = tt.Bin(OpUlt, at, res)
			}
			if b.Name() == "max" {
				less = tt.BNot(tt.BOr(less, tt.Bin(OpEq, at, res)))
			}
			res = tt.Ite(less, at, res)
		}
		return res
	case "ssa:wrapnilchk":
		p := args[0]
		if pv, ok := p.(*Value); ok && pv == nil {
			panic(&GoPanic{msg: "runtime error: value method called using nil pointer"})
		}
		return p
	}
	unsup("builtin %s(%T)", b.Name(), args[0])
	return nil
}

func zeroLike(v Value, e *Engine) Value {
	switch x := v.(type) {
	case *Term:
		return e.tt.Const(x.w, 0)
	case Str:
		return Str{}
	case *Value:
		return (*Value)(nil)
	case Slice:
		return Slice{}
	case Iface:
		return Iface{}
	case *Closure:
		return (*Closure)(nil)
	case *MapV:
		return (*MapV)(nil)
	case *Chan:
		return (*Chan)(nil)
	case Struct:
		n := make(Struct, len(x))
		for i := range x {
			n[i] = zeroLike(x[i], e)
		}
		return n
	case Array:
		n := make(Array, len(x))
		for i := range x {
			n[i] = zeroLike(x[i], e)
		}
		return n
	}
	return nil
}

func (t *Thread) doRecover() Value {
	// recover() is effective only when called directly by a deferred function
	// while the frame that deferred it is panicking.
	fr := t.deferringFrame
	if fr != nil && fr.panicking && t.top != nil && t.top.caller == fr {
		fr.panicking = false
		p := fr.panicVal
		fr.panicVal = nil
		if p.val != nil {
			return p.val
		}
		// runtime error: represent as an error-typed interface with opaque content
		return Iface{T: t.run.e.P.runtimeErrorType(), V: t.run.e.strConst(p.msg)}
	}
	return Iface{}
}

// ---------------------------------------------------------------------------

func (p *Program) pos(pos token.Pos) string {
	if !pos.IsValid() {
		return "?"
	}
	ps := p.prog.Fset.Position(pos)
	f := ps.Filename
	if i := strings.LastIndex(f, "/"); i >= 0 {
		f = f[i+1:]
	}
	return fmt.Sprintf("%s:%d", f, ps.Line)
}

// symLoaded is the result of an IndexAddr into a constant table at a symbolic
// index whose only uses are loads: the loaded value, already computed.
type symLoaded struct{ v *Term }

func onlyLoaded(in *ssa.IndexAddr) bool {
	refs := in.Referrers()
	if refs == nil || len(*refs) == 0 {
		return false
	}
	for _, r := range *refs {
		u, ok := r.(*ssa.UnOp)
		if !ok || u.Op != token.MUL {
			if _, isDbg := r.(*ssa.DebugRef); isDbg {
				continue
			}
			return false
		}
	}
	return true
}

func allConstScalars(a Array) bool {
	if len(a) == 0 || len(a) > 4096 {
		return false
	}
	for _, v := range a {
		tm, ok := v.(*Term)
		if !ok || !tm.IsConst() {
			return false
		}
	}
	return true
}

func (t *Thread) symTableRead(arr Array, idx *Term, ityp types.Type) Value {
	r := t.run
	tt := r.e.tt
	_, signed, _ := widthOf(ityp)
	if idx.w < 64 {
		if signed {
			idx = tt.SExt(idx, 64)
		} else {
			idx = tt.ZExt(idx, 64)
		}
	}
	in := tt.Bin(OpUlt, idx, tt.Const(64, uint64(len(arr))))
	if !r.branch(in, "bounds") {
		panic(&GoPanic{msg: fmt.Sprintf("runtime error: index out of range [%s] with length %d", idx, len(arr))})
	}
	// runs of equal values, from the top down
	res := arr[len(arr)-1].(*Term)
	for i := len(arr) - 2; i >= 0; i-- {
		cur := arr[i].(*Term)
		if cur == arr[i+1].(*Term) {
			continue
		}
		// indices <= i belong to earlier runs
		res = tt.Ite(tt.Bin(OpUle, idx, tt.Const(64, uint64(i))), cur, res)
	}
	// the chain above nests the wrong way round for more than two runs; rebuild properly
	res = arr[len(arr)-1].(*Term)
	type run struct {
		hi int
		v  *Term
	}
	var runs []run
	for i := 0; i < len(arr); i++ {
		if i+1 == len(arr) || arr[i+1].(*Term) != arr[i].(*Term) {
			runs = append(runs, run{i, arr[i].(*Term)})
		}
	}
	res = runs[len(runs)-1].v
	for k := len(runs) - 2; k >= 0; k-- {
		res = tt.Ite(tt.Bin(OpUle, idx, tt.Const(64, uint64(runs[k].hi))), runs[k].v, res)
	}
	return symLoaded{res}
}
