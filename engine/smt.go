package main

// One long-lived solver process per worker.  The assertion stack mirrors the
// path condition (one push level per conjunct); a query syncs the stack to
// the current path condition (pop to common prefix, push the rest), then
// checks pc ∧ extra.  Any "(error" line or "unknown" makes the answer
// Unknown, which callers must treat as inconclusive.

import (
	"bufio"
	"fmt"
	"io"
	"os"
	"os/exec"
	"strconv"
	"strings"
	"time"
)

type SatResult int

const (
	Unsat SatResult = iota
	Sat
	Unknown
)

func (r SatResult) String() string { return [...]string{"unsat", "sat", "unknown"}[r] }

type Solver struct {
	name    string
	cmd     *exec.Cmd
	in      io.WriteCloser
	out     *bufio.Reader
	stack   []*Term // asserted conjuncts, one per push level
	defined map[int]bool
	tt      *TermTable
	// stats
	nQueries, nSat, nUnsat, nUnknown, nErrors int
	solverTime                                time.Duration
	timeoutMs                                 int
	log                                       io.Writer
	lastErr                                   string
	transcript                                strings.Builder
	slowDumped                                int
}

var slowLogDir = os.Getenv("SYMGO_SLOWLOG")

func solverArgv(name string, timeoutMs int) []string {
	switch name {
	case "z3":
		return []string{"z3", "-in", fmt.Sprintf("-t:%d", timeoutMs)}
	case "z3-new":
		return []string{"z3-new", "-in", fmt.Sprintf("-t:%d", timeoutMs)}
	case "cvc5":
		return []string{"cvc5", "--incremental", "--lang=smt2", "--produce-models", fmt.Sprintf("--tlimit-per=%d", timeoutMs)}
	}
	panic("unknown solver " + name)
}

func NewSolver(name string, tt *TermTable, timeoutMs int) (*Solver, error) {
	argv := solverArgv(name, timeoutMs)
	cmd := exec.Command(argv[0], argv[1:]...)
	in, err := cmd.StdinPipe()
	if err != nil {
		return nil, err
	}
	outp, err := cmd.StdoutPipe()
	if err != nil {
		return nil, err
	}
	cmd.Stderr = nil
	if err := cmd.Start(); err != nil {
		return nil, err
	}
	s := &Solver{name: name, cmd: cmd, in: in, out: bufio.NewReaderSize(outp, 1<<16), defined: map[int]bool{}, tt: tt, timeoutMs: timeoutMs}
	s.send("(set-option :global-declarations true)\n(set-option :produce-models true)\n")
	if name == "cvc5" {
		s.send("(set-logic QF_BV)\n")
	}
	return s, nil
}

func (s *Solver) Close() {
	if s.cmd != nil {
		s.in.Close()
		s.cmd.Process.Kill()
		s.cmd.Wait()
		s.cmd = nil
	}
}

func (s *Solver) send(str string) {
	if slowLogDir != "" {
		s.transcript.WriteString(str)
	}
	if s.log != nil {
		io.WriteString(s.log, str)
	}
	io.WriteString(s.in, str)
}

// ref returns the SMT reference for a term, emitting definitions as needed.
func (s *Solver) ref(t *Term, sb *strings.Builder) string {
	if h := t.smtHead(); h != "" {
		if t.op == OpVar && !s.defined[t.id] {
			fmt.Fprintf(sb, "(declare-const %s %s)\n", t.name, sortName(t.w))
			s.defined[t.id] = true
		}
		return h
	}
	nm := "t" + strconv.Itoa(t.id)
	if s.defined[t.id] {
		return nm
	}
	refs := make([]string, len(t.args))
	for i, a := range t.args {
		refs[i] = s.ref(a, sb)
	}
	var head string
	switch t.op {
	case OpExtract:
		head = fmt.Sprintf("(_ extract %d %d)", t.hi, t.lo)
	case OpZExt:
		head = fmt.Sprintf("(_ zero_extend %d)", t.hi)
	case OpSExt:
		head = fmt.Sprintf("(_ sign_extend %d)", t.hi)
	default:
		head = opName[t.op]
	}
	fmt.Fprintf(sb, "(define-fun %s () %s (%s %s))\n", nm, sortName(t.w), head, strings.Join(refs, " "))
	s.defined[t.id] = true
	return nm
}

func (s *Solver) readLine() string {
	line, err := s.out.ReadString('\n')
	if err != nil {
		return "(error \"solver died: " + err.Error() + "\")"
	}
	return strings.TrimSpace(line)
}

// sync makes the solver's assertion stack equal to pc.
func (s *Solver) sync(pc []*Term, sb *strings.Builder) {
	common := 0
	for common < len(s.stack) && common < len(pc) && s.stack[common] == pc[common] {
		common++
	}
	if n := len(s.stack) - common; n > 0 {
		fmt.Fprintf(sb, "(pop %d)\n", n)
		s.stack = s.stack[:common]
	}
	for _, c := range pc[common:] {
		r := s.ref(c, sb)
		fmt.Fprintf(sb, "(push 1)\n(assert %s)\n", r)
		s.stack = append(s.stack, c)
	}
}

// Check decides pc ∧ extra (extra may be nil).  If wantModel and sat, the
// values of vars are returned.
func (s *Solver) Check(pc []*Term, extra *Term, vars []*Term, wantModel bool) (SatResult, map[string]uint64) {
	var sb strings.Builder
	s.sync(pc, &sb)
	if extra != nil {
		r := s.ref(extra, &sb)
		fmt.Fprintf(&sb, "(push 1)\n(assert %s)\n", r)
	}
	for _, v := range vars {
		s.ref(v, &sb)
	}
	sb.WriteString("(check-sat)\n")
	t0 := time.Now()
	s.send(sb.String())
	res := Unknown
	for {
		line := s.readLine()
		if line == "" {
			continue
		}
		if strings.HasPrefix(line, "(error") {
			s.nErrors++
			s.lastErr = line
			if strings.Contains(line, "solver died") {
				res = Unknown
				break
			}
			continue // keep reading until the verdict line, but remember error
		}
		switch line {
		case "sat":
			res = Sat
		case "unsat":
			res = Unsat
		case "unknown", "timeout":
			res = Unknown
		default:
			continue
		}
		break
	}
	if s.nErrors > 0 {
		res = Unknown
	}
	var model map[string]uint64
	if res == Sat && wantModel && len(vars) > 0 {
		var q strings.Builder
		q.WriteString("(get-value (")
		for _, v := range vars {
			q.WriteString(v.name)
			q.WriteByte(' ')
		}
		q.WriteString("))\n")
		s.send(q.String())
		model = s.readModel(len(vars))
	}
	s.solverTime += time.Since(t0)
	if slowLogDir != "" && time.Since(t0) > 2*time.Second && s.slowDumped < 3 {
		s.slowDumped++
		os.WriteFile(fmt.Sprintf("%s/slow-%d-%d.smt2", slowLogDir, os.Getpid(), s.nQueries), []byte(s.transcript.String()), 0o644)
	}
	s.nQueries++
	switch res {
	case Sat:
		s.nSat++
	case Unsat:
		s.nUnsat++
	default:
		s.nUnknown++
	}
	if extra != nil {
		s.send("(pop 1)\n")
	}
	return res, model
}

// readModel parses "((a #x01) (b true) ...)" possibly spanning several lines.
func (s *Solver) readModel(n int) map[string]uint64 {
	m := map[string]uint64{}
	var buf strings.Builder
	depth := 0
	started := false
	for {
		line := s.readLine()
		if strings.HasPrefix(line, "(error") {
			s.nErrors++
			s.lastErr = line
			return m
		}
		buf.WriteString(line)
		buf.WriteByte(' ')
		for _, ch := range line {
			if ch == '(' {
				depth++
				started = true
			} else if ch == ')' {
				depth--
			}
		}
		if started && depth == 0 {
			break
		}
	}
	txt := buf.String()
	// tokenise pairs
	txt = strings.ReplaceAll(txt, "(", " ( ")
	txt = strings.ReplaceAll(txt, ")", " ) ")
	toks := strings.Fields(txt)
	for i := 0; i+3 < len(toks); i++ {
		if toks[i] == "(" && toks[i+1] != "(" && toks[i+2] != "(" && toks[i+3] == ")" {
			name, val := toks[i+1], toks[i+2]
			var v uint64
			switch {
			case val == "true":
				v = 1
			case val == "false":
				v = 0
			case strings.HasPrefix(val, "#x"):
				v, _ = strconv.ParseUint(val[2:], 16, 64)
			case strings.HasPrefix(val, "#b"):
				v, _ = strconv.ParseUint(val[2:], 2, 64)
			default:
				continue
			}
			m[name] = v
		}
	}
	return m
}

// Reset drops the whole assertion stack (used between harnesses).
func (s *Solver) Reset() {
	if len(s.stack) > 0 {
		s.send(fmt.Sprintf("(pop %d)\n", len(s.stack)))
		s.stack = nil
	}
}
