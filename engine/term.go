package main

// Hash-consed bit-vector / boolean terms with constant folding.
// Width 0 = Bool sort; width 1..64 = (_ BitVec w).  All Go integer semantics
// (wrap-around, shifts >= width, signed/unsigned division) are expressed on
// fixed-width terms; no mathematical integers anywhere.

import (
	"fmt"
	"strings"
)

type Op uint8

const (
	OpConst Op = iota
	OpVar
	OpAdd
	OpSub
	OpMul
	OpUDiv
	OpURem
	OpSDiv
	OpSRem
	OpAnd
	OpOr
	OpXor
	OpNot // bvnot
	OpNeg
	OpShl
	OpLShr
	OpAShr
	OpExtract
	OpZExt
	OpSExt
	OpConcat
	OpIte
	OpEq
	OpUlt
	OpUle
	OpSlt
	OpSle
	OpBAnd // boolean and
	OpBOr
	OpBNot
)

var opName = map[Op]string{
	OpAdd: "bvadd", OpSub: "bvsub", OpMul: "bvmul", OpUDiv: "bvudiv", OpURem: "bvurem",
	OpSDiv: "bvsdiv", OpSRem: "bvsrem", OpAnd: "bvand", OpOr: "bvor", OpXor: "bvxor",
	OpNot: "bvnot", OpNeg: "bvneg", OpShl: "bvshl", OpLShr: "bvlshr", OpAShr: "bvashr",
	OpConcat: "concat", OpIte: "ite", OpEq: "=", OpUlt: "bvult", OpUle: "bvule",
	OpSlt: "bvslt", OpSle: "bvsle", OpBAnd: "and", OpBOr: "or", OpBNot: "not",
}

type Term struct {
	op   Op
	w    int // 0 = Bool
	args []*Term
	c    uint64 // constant value (masked), for Bool 0/1
	name string // var name
	hi   int    // extract hi / extension amount
	lo   int
	id   int
	smt  string // cached printed form (for small terms) — filled lazily
}

type termKey struct {
	op         Op
	w          int
	c          uint64
	hi, lo     int
	name       string
	a0, a1, a2 int
}

type constKey struct {
	w int
	c uint64
}

type TermTable struct {
	tab    map[termKey]*Term
	consts map[constKey]*Term
	next   int
	vars   []*Term
	varBy  map[string]*Term
}

func NewTermTable() *TermTable {
	return &TermTable{tab: map[termKey]*Term{}, consts: map[constKey]*Term{}, varBy: map[string]*Term{}}
}

func mask(w int) uint64 {
	if w >= 64 {
		return ^uint64(0)
	}
	if w == 0 {
		return 1
	}
	return (uint64(1) << uint(w)) - 1
}

func (tt *TermTable) intern(t *Term) *Term {
	k := termKey{op: t.op, w: t.w, c: t.c, hi: t.hi, lo: t.lo, name: t.name}
	switch len(t.args) {
	case 3:
		k.a2 = t.args[2].id
		fallthrough
	case 2:
		k.a1 = t.args[1].id
		fallthrough
	case 1:
		k.a0 = t.args[0].id
	}
	if x, ok := tt.tab[k]; ok {
		return x
	}
	tt.next++
	t.id = tt.next
	tt.tab[k] = t
	return t
}

func (tt *TermTable) Const(w int, v uint64) *Term {
	v &= mask(w)
	k := constKey{w, v}
	if x, ok := tt.consts[k]; ok {
		return x
	}
	tt.next++
	x := &Term{op: OpConst, w: w, c: v, id: tt.next}
	tt.consts[k] = x
	return x
}
func (tt *TermTable) Bool(b bool) *Term {
	if b {
		return tt.Const(0, 1)
	}
	return tt.Const(0, 0)
}
func (tt *TermTable) Var(w int, name string) *Term {
	if v, ok := tt.varBy[name]; ok {
		if v.w != w {
			panic(fmt.Sprintf("var %s redeclared with width %d (was %d)", name, w, v.w))
		}
		return v
	}
	v := tt.intern(&Term{op: OpVar, w: w, name: name})
	tt.varBy[name] = v
	tt.vars = append(tt.vars, v)
	return v
}

func (t *Term) IsConst() bool { return t.op == OpConst }
func (t *Term) IsTrue() bool  { return t.op == OpConst && t.w == 0 && t.c == 1 }
func (t *Term) IsFalse() bool { return t.op == OpConst && t.w == 0 && t.c == 0 }

func sext64(v uint64, w int) int64 {
	if w >= 64 {
		return int64(v)
	}
	if v&(uint64(1)<<uint(w-1)) != 0 {
		return int64(v | ^mask(w))
	}
	return int64(v)
}

// evalOp computes the op on constants. ok=false if not foldable.
func evalOp(op Op, w int, a, b uint64, aw int) (uint64, bool) {
	m := mask(w)
	switch op {
	case OpAdd:
		return (a + b) & m, true
	case OpSub:
		return (a - b) & m, true
	case OpMul:
		return (a * b) & m, true
	case OpUDiv:
		if b == 0 {
			return m, true
		}
		return (a / b) & m, true
	case OpURem:
		if b == 0 {
			return a, true
		}
		return (a % b) & m, true
	case OpSDiv:
		sa, sb := sext64(a, w), sext64(b, w)
		if sb == 0 {
			if sa >= 0 {
				return m, true
			}
			return 1, true
		}
		if sb == -1 {
			return uint64(-sa) & m, true
		}
		return uint64(sa/sb) & m, true
	case OpSRem:
		sa, sb := sext64(a, w), sext64(b, w)
		if sb == 0 {
			return a, true
		}
		if sb == -1 {
			return 0, true
		}
		return uint64(sa%sb) & m, true
	case OpAnd:
		return a & b, true
	case OpOr:
		return a | b, true
	case OpXor:
		return a ^ b, true
	case OpShl:
		if b >= uint64(w) {
			return 0, true
		}
		return (a << b) & m, true
	case OpLShr:
		if b >= uint64(w) {
			return 0, true
		}
		return (a >> b) & m, true
	case OpAShr:
		sa := sext64(a, w)
		if b >= uint64(w) {
			if sa < 0 {
				return m, true
			}
			return 0, true
		}
		return uint64(sa>>b) & m, true
	case OpEq:
		if a == b {
			return 1, true
		}
		return 0, true
	case OpUlt:
		if a < b {
			return 1, true
		}
		return 0, true
	case OpUle:
		if a <= b {
			return 1, true
		}
		return 0, true
	case OpSlt:
		if sext64(a, aw) < sext64(b, aw) {
			return 1, true
		}
		return 0, true
	case OpSle:
		if sext64(a, aw) <= sext64(b, aw) {
			return 1, true
		}
		return 0, true
	}
	return 0, false
}

func (tt *TermTable) Bin(op Op, a, b *Term) *Term {
	if a.w != b.w {
		panic(fmt.Sprintf("width mismatch in %v: %d vs %d", opName[op], a.w, b.w))
	}
	w := a.w
	switch op {
	case OpEq, OpUlt, OpUle, OpSlt, OpSle:
		w = 0
	}
	if a.op == OpConst && b.op == OpConst {
		if a.w == 0 && op == OpEq {
			return tt.Bool(a.c == b.c)
		}
		if v, ok := evalOp(op, w, a.c, b.c, a.w); ok {
			return tt.Const(w, v)
		}
	}
	// light simplifications
	switch op {
	case OpEq:
		if a == b {
			return tt.Bool(true)
		}
		if a.w == 0 {
			// bool equality
			if b.op == OpConst {
				a, b = b, a
			}
			if a.op == OpConst {
				if a.c == 1 {
					return b
				}
				return tt.BNot(b)
			}
		}
		if a.op == OpConst && b.op != OpConst {
			a, b = b, a // const on the right
		}
		// (zext x) == c  where c fits: x == c' ; where not: false
		if b.op == OpConst && a.op == OpZExt {
			in := a.args[0]
			if b.c&^mask(in.w) != 0 {
				return tt.Bool(false)
			}
			return tt.Bin(OpEq, in, tt.Const(in.w, b.c))
		}
		if b.op == OpConst && a.op == OpIte && a.args[1].op == OpConst && a.args[2].op == OpConst {
			// ite(c, k1, k2) == k
			t1 := a.args[1].c == b.c
			t2 := a.args[2].c == b.c
			switch {
			case t1 && t2:
				return tt.Bool(true)
			case t1:
				return a.args[0]
			case t2:
				return tt.BNot(a.args[0])
			default:
				return tt.Bool(false)
			}
		}
	case OpUlt:
		if a == b {
			return tt.Bool(false)
		}
		if b.op == OpConst && b.c == 0 {
			return tt.Bool(false)
		}
	case OpUle:
		if a == b {
			return tt.Bool(true)
		}
		if a.op == OpConst && a.c == 0 {
			return tt.Bool(true)
		}
	case OpSlt:
		if a == b {
			return tt.Bool(false)
		}
	case OpSle:
		if a == b {
			return tt.Bool(true)
		}
	case OpAdd, OpOr, OpXor:
		if a.op == OpConst && a.c == 0 {
			return b
		}
		if b.op == OpConst && b.c == 0 {
			return a
		}
		if op == OpOr && a == b {
			return a
		}
	case OpSub, OpShl, OpLShr, OpAShr:
		if b.op == OpConst && b.c == 0 {
			return a
		}
		if op != OpSub && b.op == OpConst && b.c >= uint64(w) && op != OpAShr {
			return tt.Const(w, 0)
		}
		if op != OpSub && a.op == OpConst && a.c == 0 {
			return a
		}
		if op == OpSub && a == b {
			return tt.Const(w, 0)
		}
	case OpAnd:
		if a.op == OpConst && a.c == 0 {
			return a
		}
		if b.op == OpConst && b.c == 0 {
			return b
		}
		if a.op == OpConst && a.c == mask(w) {
			return b
		}
		if b.op == OpConst && b.c == mask(w) {
			return a
		}
		if a == b {
			return a
		}
	case OpMul:
		if a.op == OpConst && a.c == 0 {
			return a
		}
		if b.op == OpConst && b.c == 0 {
			return b
		}
		if a.op == OpConst && a.c == 1 {
			return b
		}
		if b.op == OpConst && b.c == 1 {
			return a
		}
	}
	return tt.intern(&Term{op: op, w: w, args: []*Term{a, b}})
}

func (tt *TermTable) Un(op Op, a *Term) *Term {
	if a.op == OpConst {
		switch op {
		case OpNot:
			return tt.Const(a.w, ^a.c)
		case OpNeg:
			return tt.Const(a.w, -a.c)
		}
	}
	return tt.intern(&Term{op: op, w: a.w, args: []*Term{a}})
}

func (tt *TermTable) BNot(a *Term) *Term {
	if a.w != 0 {
		panic("BNot on non-bool")
	}
	if a.op == OpConst {
		return tt.Bool(a.c == 0)
	}
	if a.op == OpBNot {
		return a.args[0]
	}
	return tt.intern(&Term{op: OpBNot, w: 0, args: []*Term{a}})
}

func (tt *TermTable) BAnd(a, b *Term) *Term {
	if a.w != 0 || b.w != 0 {
		panic("BAnd on non-bool")
	}
	if a.IsFalse() || b.IsFalse() {
		return tt.Bool(false)
	}
	if a.IsTrue() {
		return b
	}
	if b.IsTrue() {
		return a
	}
	if a == b {
		return a
	}
	return tt.intern(&Term{op: OpBAnd, w: 0, args: []*Term{a, b}})
}

func (tt *TermTable) BOr(a, b *Term) *Term {
	if a.IsTrue() || b.IsTrue() {
		return tt.Bool(true)
	}
	if a.IsFalse() {
		return b
	}
	if b.IsFalse() {
		return a
	}
	if a == b {
		return a
	}
	return tt.intern(&Term{op: OpBOr, w: 0, args: []*Term{a, b}})
}

func (tt *TermTable) Ite(c, a, b *Term) *Term {
	if c.IsTrue() {
		return a
	}
	if c.IsFalse() {
		return b
	}
	if a == b {
		return a
	}
	if a.w == 0 {
		// boolean ite
		return tt.BOr(tt.BAnd(c, a), tt.BAnd(tt.BNot(c), b))
	}
	return tt.intern(&Term{op: OpIte, w: a.w, args: []*Term{c, a, b}})
}

func (tt *TermTable) Extract(a *Term, hi, lo int) *Term {
	if lo == 0 && hi == a.w-1 {
		return a
	}
	w := hi - lo + 1
	if a.op == OpConst {
		return tt.Const(w, a.c>>uint(lo))
	}
	if (a.op == OpZExt || a.op == OpSExt) && lo == 0 {
		in := a.args[0]
		if w == in.w {
			return in
		}
		if w < in.w {
			return tt.Extract(in, hi, 0)
		}
		if a.op == OpZExt {
			return tt.ZExt(in, w)
		}
		return tt.SExt(in, w)
	}
	return tt.intern(&Term{op: OpExtract, w: w, args: []*Term{a}, hi: hi, lo: lo})
}

func (tt *TermTable) ZExt(a *Term, w int) *Term {
	if w == a.w {
		return a
	}
	if w < a.w {
		return tt.Extract(a, w-1, 0)
	}
	if a.op == OpConst {
		return tt.Const(w, a.c)
	}
	if a.op == OpZExt {
		return tt.ZExt(a.args[0], w)
	}
	return tt.intern(&Term{op: OpZExt, w: w, args: []*Term{a}, hi: w - a.w})
}

func (tt *TermTable) SExt(a *Term, w int) *Term {
	if w == a.w {
		return a
	}
	if w < a.w {
		return tt.Extract(a, w-1, 0)
	}
	if a.op == OpConst {
		return tt.Const(w, uint64(sext64(a.c, a.w)))
	}
	return tt.intern(&Term{op: OpSExt, w: w, args: []*Term{a}, hi: w - a.w})
}

// BoolToBV converts Bool to a 0/1 bit-vector of width w.
func (tt *TermTable) BoolToBV(b *Term, w int) *Term {
	return tt.Ite(b, tt.Const(w, 1), tt.Const(w, 0))
}

// SMT printing.  DAG-aware: shared sub-terms are printed through let-free
// named definitions managed by the solver layer (define-fun per term id).
func (t *Term) smtHead() string {
	switch t.op {
	case OpConst:
		if t.w == 0 {
			if t.c == 1 {
				return "true"
			}
			return "false"
		}
		if t.w%4 == 0 {
			return fmt.Sprintf("#x%0*x", t.w/4, t.c)
		}
		return fmt.Sprintf("#b%0*b", t.w, t.c)
	case OpVar:
		return t.name
	}
	return ""
}

func sortName(w int) string {
	if w == 0 {
		return "Bool"
	}
	return fmt.Sprintf("(_ BitVec %d)", w)
}

// Eval evaluates a term under a model (var name -> value).  Missing vars are 0.
func (t *Term) Eval(m map[string]uint64, memo map[*Term]uint64) uint64 {
	if t.op == OpConst {
		return t.c
	}
	if v, ok := memo[t]; ok {
		return v
	}
	var r uint64
	switch t.op {
	case OpVar:
		r = m[t.name] & mask(t.w)
	case OpNot:
		r = ^t.args[0].Eval(m, memo) & mask(t.w)
	case OpNeg:
		r = -t.args[0].Eval(m, memo) & mask(t.w)
	case OpBNot:
		r = 1 - t.args[0].Eval(m, memo)
	case OpBAnd:
		r = t.args[0].Eval(m, memo) & t.args[1].Eval(m, memo)
	case OpBOr:
		r = t.args[0].Eval(m, memo) | t.args[1].Eval(m, memo)
	case OpIte:
		if t.args[0].Eval(m, memo) == 1 {
			r = t.args[1].Eval(m, memo)
		} else {
			r = t.args[2].Eval(m, memo)
		}
	case OpExtract:
		r = (t.args[0].Eval(m, memo) >> uint(t.lo)) & mask(t.w)
	case OpZExt:
		r = t.args[0].Eval(m, memo)
	case OpSExt:
		r = uint64(sext64(t.args[0].Eval(m, memo), t.args[0].w)) & mask(t.w)
	case OpConcat:
		r = (t.args[0].Eval(m, memo)<<uint(t.args[1].w) | t.args[1].Eval(m, memo)) & mask(t.w)
	default:
		a := t.args[0].Eval(m, memo)
		b := t.args[1].Eval(m, memo)
		if t.args[0].w == 0 && t.op == OpEq {
			if a == b {
				r = 1
			}
		} else {
			v, ok := evalOp(t.op, t.w, a, b, t.args[0].w)
			if !ok {
				panic("eval: unknown op")
			}
			r = v
		}
	}
	memo[t] = r
	return r
}

func (t *Term) String() string {
	if h := t.smtHead(); h != "" {
		return h
	}
	var sb strings.Builder
	t.write(&sb, 0)
	return sb.String()
}

func (t *Term) write(sb *strings.Builder, depth int) {
	if h := t.smtHead(); h != "" {
		sb.WriteString(h)
		return
	}
	if depth > 40 {
		sb.WriteString("…")
		return
	}
	switch t.op {
	case OpExtract:
		fmt.Fprintf(sb, "((_ extract %d %d) ", t.hi, t.lo)
	case OpZExt:
		fmt.Fprintf(sb, "((_ zero_extend %d) ", t.hi)
	case OpSExt:
		fmt.Fprintf(sb, "((_ sign_extend %d) ", t.hi)
	default:
		sb.WriteString("(" + opName[t.op] + " ")
	}
	for i, a := range t.args {
		if i > 0 {
			sb.WriteByte(' ')
		}
		a.write(sb, depth+1)
	}
	sb.WriteByte(')')
}
