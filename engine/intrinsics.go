package main

// Trusted models of the environment: sync, sync/atomic, time (virtual clock),
// context, fmt, reflect subset, runtime, math/rand, internal/bytealg leaves,
// errors.As — and the harness runtime API (verif*).  Every intrinsic that is
// hit is listed in the evidence.

import (
	"fmt"
	"go/types"
	"strings"
)

type intrinsic func(t *Thread, args []Value) Value

var intrinsics map[string]intrinsic

const mqttPath = "github.com/at-wat/mqtt-go"

func init() {
	intrinsics = map[string]intrinsic{
		// ---- sync
		"(*sync.Mutex).Lock":      func(t *Thread, a []Value) Value { t.lock(a[0].(*Value)); return nil },
		"(*sync.Mutex).Unlock":    func(t *Thread, a []Value) Value { t.unlock(a[0].(*Value)); return nil },
		"(*sync.RWMutex).Lock":    func(t *Thread, a []Value) Value { t.lock(a[0].(*Value)); return nil },
		"(*sync.RWMutex).Unlock":  func(t *Thread, a []Value) Value { t.unlock(a[0].(*Value)); return nil },
		"(*sync.RWMutex).RLock":   func(t *Thread, a []Value) Value { t.rlock(a[0].(*Value)); return nil },
		"(*sync.RWMutex).RUnlock": func(t *Thread, a []Value) Value { t.runlock(a[0].(*Value)); return nil },
		"(*sync.Mutex).TryLock": func(t *Thread, a []Value) Value {
			m := t.run.mutex(a[0].(*Value))
			t.yield("trylock")
			if m.locked || m.readers > 0 {
				return t.run.e.tt.Bool(false)
			}
			m.locked = true
			t.vc.join(m.vc)
			return t.run.e.tt.Bool(true)
		},
		"(*sync.Once).Do":        onceDo,
		"(*sync.WaitGroup).Add":  wgAdd,
		"(*sync.WaitGroup).Done": func(t *Thread, a []Value) Value { return wgAdd(t, []Value{a[0], t.run.e.tt.Const(64, ^uint64(0))}) },
		"(*sync.WaitGroup).Wait": wgWait,

		// ---- sync/atomic
		"sync/atomic.AddUint32":            atomicAdd,
		"sync/atomic.AddInt32":             atomicAdd,
		"sync/atomic.AddUint64":            atomicAdd,
		"sync/atomic.AddInt64":             atomicAdd,
		"sync/atomic.LoadUint32":           atomicLoad,
		"sync/atomic.LoadInt32":            atomicLoad,
		"sync/atomic.LoadUint64":           atomicLoad,
		"sync/atomic.LoadInt64":            atomicLoad,
		"sync/atomic.StoreUint32":          atomicStore,
		"sync/atomic.StoreInt32":           atomicStore,
		"sync/atomic.StoreUint64":          atomicStore,
		"sync/atomic.StoreInt64":           atomicStore,
		"sync/atomic.CompareAndSwapUint32": atomicCAS,
		"sync/atomic.CompareAndSwapInt32":  atomicCAS,
		"sync/atomic.CompareAndSwapUint64": atomicCAS,
		"sync/atomic.CompareAndSwapInt64":  atomicCAS,
		"sync/atomic.SwapUint32":           atomicSwap,
		"sync/atomic.SwapInt32":            atomicSwap,

		// ---- time
		"time.Now":   func(t *Thread, a []Value) Value { return t.run.timeValue(t.run.clock) },
		"time.Since": func(t *Thread, a []Value) Value { return t.run.e.tt.Bin(OpSub, t.run.clock, timeExt(a[0])) },
		"time.Until": func(t *Thread, a []Value) Value { return t.run.e.tt.Bin(OpSub, timeExt(a[0]), t.run.clock) },
		"(time.Time).Sub": func(t *Thread, a []Value) Value {
			return t.run.e.tt.Bin(OpSub, timeExt(a[0]), timeExt(a[1]))
		},
		"(time.Time).Add": func(t *Thread, a []Value) Value {
			return t.run.timeValue(t.run.e.tt.Bin(OpAdd, timeExt(a[0]), a[1].(*Term)))
		},
		"(time.Time).Before":   func(t *Thread, a []Value) Value { return t.run.e.tt.Bin(OpSlt, timeExt(a[0]), timeExt(a[1])) },
		"(time.Time).After":    func(t *Thread, a []Value) Value { return t.run.e.tt.Bin(OpSlt, timeExt(a[1]), timeExt(a[0])) },
		"(time.Time).Equal":    func(t *Thread, a []Value) Value { return t.run.e.tt.Bin(OpEq, timeExt(a[0]), timeExt(a[1])) },
		"(time.Time).IsZero":   func(t *Thread, a []Value) Value { return t.run.e.tt.Bool(false) },
		"(time.Time).UnixNano": func(t *Thread, a []Value) Value { return timeExt(a[0]) },
		"time.Sleep": func(t *Thread, a []Value) Value {
			r := t.run
			tm := r.addTimer(t, a[0].(*Term))
			fired := false
			tm.fire = func(by *Thread) { fired = true }
			t.block(func() bool { return fired }, "sleep")
			return nil
		},
		"time.After": func(t *Thread, a []Value) Value {
			r := t.run
			tm := r.addTimer(t, a[0].(*Term))
			tm.ch = r.newChan(1)
			tm.ch.zero = r.timeValue(r.e.tt.Const(64, 0))
			return tm.ch
		},
		"time.NewTimer": func(t *Thread, a []Value) Value {
			r := t.run
			tm := r.addTimer(t, a[0].(*Term))
			tm.ch = r.newChan(1)
			tm.ch.zero = r.timeValue(r.e.tt.Const(64, 0))
			return r.timerStruct("Timer", tm)
		},
		"time.NewTicker": func(t *Thread, a []Value) Value {
			r := t.run
			d := a[0].(*Term)
			if !r.branch(r.e.tt.Bin(OpSlt, r.e.tt.Const(64, 0), d), "ticker>0") {
				panic(&GoPanic{msg: "panic: non-positive interval for NewTicker"})
			}
			tm := r.addTimer(t, d)
			tm.period = d
			tm.ch = r.newChan(1)
			tm.ch.zero = r.timeValue(r.e.tt.Const(64, 0))
			return r.timerStruct("Ticker", tm)
		},
		"time.AfterFunc": func(t *Thread, a []Value) Value {
			r := t.run
			tm := r.addTimer(t, a[0].(*Term))
			f := a[1]
			tm.fire = func(by *Thread) {
				nt := r.newThread("afterfunc", true, nil)
				nt.vc.join(tm.vc)
				r.start(nt, func() { nt.callValue(f, nil, nil) })
			}
			return r.timerStruct("Timer", tm)
		},
		"(*time.Timer).Stop": func(t *Thread, a []Value) Value {
			tm := t.run.timerOf[a[0].(*Value)]
			was := tm != nil && tm.active
			if tm != nil {
				tm.active = false
			}
			return t.run.e.tt.Bool(was)
		},
		"(*time.Timer).Reset": func(t *Thread, a []Value) Value {
			r := t.run
			tm := r.timerOf[a[0].(*Value)]
			was := tm.active
			tm.active = true
			tm.deadline = r.e.tt.Bin(OpAdd, r.clock, a[1].(*Term))
			return r.e.tt.Bool(was)
		},
		"(*time.Ticker).Stop": func(t *Thread, a []Value) Value {
			if tm := t.run.timerOf[a[0].(*Value)]; tm != nil {
				tm.active = false
			}
			return nil
		},

		// ---- context
		"context.Background":   func(t *Thread, a []Value) Value { return t.run.ctxBackground() },
		"context.TODO":         func(t *Thread, a []Value) Value { return t.run.ctxBackground() },
		"context.WithCancel":   ctxWithCancel,
		"context.WithTimeout":  ctxWithTimeout,
		"context.WithDeadline": ctxWithDeadline,
		"context.WithValue":    ctxWithValue,

		// ---- math/rand
		"math/rand.Seed": func(t *Thread, a []Value) Value { return nil },
		"math/rand.Int31n": func(t *Thread, a []Value) Value {
			r := t.run
			if r.randPinned >= 0 {
				v := r.e.tt.Const(32, uint64(r.randPinned))
				r.randPinned += 1000
				return v
			}
			v := r.fresh("rand.Int31n", 32)
			n := a[0].(*Term)
			r.assume(r.e.tt.BAnd(r.e.tt.Bin(OpSle, r.e.tt.Const(32, 0), v), r.e.tt.Bin(OpSlt, v, n)))
			return v
		},

		// a private generator: rand.New(rand.NewSource(seed)).  Its state is one plain memory cell that every
		// draw writes without synchronisation (a *rand.Rand is not safe for concurrent use); values as above.
		"math/rand.NewSource": func(t *Thread, a []Value) Value { return Iface{} },
		"math/rand.New": func(t *Thread, a []Value) Value {
			var cell Value = Opaque{kind: "rand.Rand"}
			return &cell
		},
		"(*math/rand.Rand).Int31n": func(t *Thread, a []Value) Value {
			r := t.run
			if p, ok := a[0].(*Value); ok && r.raceOn {
				t.logAccess(p, true)
			}
			if r.randPinned >= 0 {
				v := r.e.tt.Const(32, uint64(r.randPinned))
				r.randPinned += 1000
				return v
			}
			v := r.fresh("rand.Int31n", 32)
			n := a[1].(*Term)
			r.assume(r.e.tt.BAnd(r.e.tt.Bin(OpSle, r.e.tt.Const(32, 0), v), r.e.tt.Bin(OpSlt, v, n)))
			return v
		},

		// ---- fmt / runtime / filepath / strings (texts are outside every claim)
		"fmt.Sprintf":  func(t *Thread, a []Value) Value { return opaqueText(t, a) },
		"fmt.Sprint":   func(t *Thread, a []Value) Value { return t.run.e.strConst("<fmt>") },
		"fmt.Sprintln": func(t *Thread, a []Value) Value { return t.run.e.strConst("<fmt>") },
		"fmt.Printf":   func(t *Thread, a []Value) Value { return Tuple{t.run.e.tt.Const(64, 0), Iface{}} },
		"fmt.Println":  func(t *Thread, a []Value) Value { return Tuple{t.run.e.tt.Const(64, 0), Iface{}} },
		"fmt.Errorf":   fmtErrorf,
		"runtime.Caller": func(t *Thread, a []Value) Value {
			tt := t.run.e.tt
			return Tuple{tt.Const(64, 0), t.run.e.strConst("file.go"), tt.Const(64, 1), tt.Bool(true)}
		},
		"runtime.Gosched":    func(t *Thread, a []Value) Value { t.yield("gosched"); return nil },
		"path/filepath.Base": func(t *Thread, a []Value) Value { return a[0] },
		"strings.Join": func(t *Thread, a []Value) Value {
			var out []*Term
			sep := a[1].(Str)
			for i, el := range a[0].(Slice).a {
				if i > 0 {
					out = append(out, sep.b...)
				}
				out = append(out, el.(Str).b...)
			}
			return Str{out}
		},

		// ---- reflect subset
		"reflect.TypeOf":                reflTypeOf,
		"internal/reflectlite.TypeOf":   reflTypeOf,
		"reflect.ValueOf":               reflValueOf,
		"(reflect.Value).Elem":          reflElem,
		"(reflect.Value).FieldByName":   reflFieldByName,
		"(reflect.Value).IsValid":       func(t *Thread, a []Value) Value { return t.run.e.tt.Bool(a[0].(*Opaque).data.(*rvalue).valid) },
		"(reflect.Value).Interface":     reflInterface,
		"(reflect.Value).Kind":          func(t *Thread, a []Value) Value { return t.run.e.tt.Const(64, uint64(kindOf(a[0].(*Opaque).data.(*rvalue).T))) },
		"errors.As":                     errorsAs,

		// ---- internal/bytealg leaves (assembly in the real runtime)
		"internal/bytealg.IndexByteString": func(t *Thread, a []Value) Value { return indexByte(t, a[0].(Str).b, a[1].(*Term)) },
		"internal/bytealg.IndexByte": func(t *Thread, a []Value) Value {
			return indexByte(t, sliceBytes(a[0].(Slice)), a[1].(*Term))
		},
		"internal/bytealg.CountString": func(t *Thread, a []Value) Value { return countByte(t, a[0].(Str).b, a[1].(*Term)) },
		"internal/bytealg.Count":       func(t *Thread, a []Value) Value { return countByte(t, sliceBytes(a[0].(Slice)), a[1].(*Term)) },
		"internal/bytealg.Equal": func(t *Thread, a []Value) Value {
			return t.run.e.eq(Str{sliceBytes(a[0].(Slice))}, Str{sliceBytes(a[1].(Slice))})
		},
		"bytes.Equal": func(t *Thread, a []Value) Value {
			return t.run.e.eq(Str{sliceBytes(a[0].(Slice))}, Str{sliceBytes(a[1].(Slice))})
		},
	}
	for name, f := range verifAPI {
		intrinsics[mqttPath+"."+name] = f
	}
}

func sliceBytes(s Slice) []*Term {
	b := make([]*Term, len(s.a))
	for i, v := range s.a {
		b[i] = v.(*Term)
	}
	return b
}

func opaqueText(t *Thread, a []Value) Value {
	if s, ok := a[0].(Str); ok {
		if cs, ok := concreteStr(s); ok {
			return t.run.e.strConst("<" + cs + ">")
		}
	}
	return t.run.e.strConst("<fmt>")
}

func indexByte(t *Thread, b []*Term, c *Term) Value {
	r := t.run
	tt := r.e.tt
	for i, x := range b {
		if r.branch(tt.Bin(OpEq, x, c), "indexbyte") {
			return tt.Const(64, uint64(i))
		}
	}
	return tt.Const(64, ^uint64(0))
}

func countByte(t *Thread, b []*Term, c *Term) Value {
	r := t.run
	tt := r.e.tt
	n := 0
	for _, x := range b {
		if r.branch(tt.Bin(OpEq, x, c), "countbyte") {
			n++
		}
	}
	return tt.Const(64, uint64(n))
}

// ---------------------------------------------------------------------------
// sync.Once / WaitGroup

type onceSt struct {
	done, running bool
	vc            VC
}

func onceDo(t *Thread, a []Value) Value {
	r := t.run
	p := a[0].(*Value)
	o, ok := r.onces[p]
	if !ok {
		o = &onceSt{}
		r.onces[p] = o
	}
	t.yield("once")
	if o.done {
		t.vc.join(o.vc)
		return nil
	}
	if o.running {
		t.block(func() bool { return o.done }, "once")
		t.vc.join(o.vc)
		return nil
	}
	o.running = true
	defer func() {
		o.vc = t.vc.clone()
		t.tick()
		o.done = true
	}()
	t.callValue(a[1], nil, nil)
	return nil
}

type wgSt struct {
	n  int64
	vc VC
}

func wgAdd(t *Thread, a []Value) Value {
	r := t.run
	p := a[0].(*Value)
	w, ok := r.wgroups[p]
	if !ok {
		w = &wgSt{}
		r.wgroups[p] = w
	}
	d := int64(r.concretize(a[1].(*Term), "wg delta"))
	w.vc.join(t.vc)
	t.tick()
	w.n += d
	if w.n < 0 {
		panic(&GoPanic{msg: "panic: sync: negative WaitGroup counter"})
	}
	t.yield("wg")
	return nil
}

func wgWait(t *Thread, a []Value) Value {
	r := t.run
	p := a[0].(*Value)
	w, ok := r.wgroups[p]
	if !ok {
		w = &wgSt{}
		r.wgroups[p] = w
	}
	t.yield("wgwait")
	if w.n > 0 {
		t.block(func() bool { return w.n == 0 }, "waitgroup")
	}
	t.vc.join(w.vc)
	return nil
}

// ---------------------------------------------------------------------------
// atomics

func (t *Thread) atomicSync(p *Value, write bool) {
	r := t.run
	t.yield("atomic")
	v, ok := r.atomVC[p]
	if !ok {
		v = &VC{}
		r.atomVC[p] = v
	}
	t.vc.join(*v)
	if r.raceOn {
		t.logAccessK(p, write, true)
	}
	v.join(t.vc)
	t.tick()
}

func atomicAdd(t *Thread, a []Value) Value {
	p := a[0].(*Value)
	t.atomicSync(p, true)
	n := t.run.e.tt.Bin(OpAdd, (*p).(*Term), a[1].(*Term))
	*p = n
	return n
}
func atomicLoad(t *Thread, a []Value) Value {
	p := a[0].(*Value)
	t.atomicSync(p, false)
	return *p
}
func atomicStore(t *Thread, a []Value) Value {
	p := a[0].(*Value)
	t.atomicSync(p, true)
	*p = a[1]
	return nil
}
func atomicSwap(t *Thread, a []Value) Value {
	p := a[0].(*Value)
	t.atomicSync(p, true)
	old := *p
	*p = a[1]
	return old
}
func atomicCAS(t *Thread, a []Value) Value {
	p := a[0].(*Value)
	t.atomicSync(p, true)
	r := t.run
	if r.branch(r.e.tt.Bin(OpEq, (*p).(*Term), a[1].(*Term)), "cas") {
		*p = a[2]
		return r.e.tt.Bool(true)
	}
	return r.e.tt.Bool(false)
}

// ---------------------------------------------------------------------------
// time helpers

func (r *Run) timeValue(ext *Term) Value {
	// time.Time{wall: hasMonotonic, ext: virtual ns, loc: nil}
	return Struct{r.e.tt.Const(64, 1<<63), ext, (*Value)(nil)}
}

func timeExt(v Value) *Term { return v.(Struct)[1].(*Term) }

func (r *Run) timerStruct(name string, tm *vtimer) Value {
	ty := r.e.P.namedType("time", name)
	s := r.e.zero(ty).(Struct)
	s[0] = tm.ch
	if tm.ch == nil {
		s[0] = (*Chan)(nil)
	}
	p := new(Value)
	*p = s
	r.timerOf[p] = tm
	return p
}

// ---------------------------------------------------------------------------
// context

type ctxObj struct {
	kind        string
	parent      Value
	done        *Chan
	err         Value
	children    []*ctxObj
	up          *ctxObj
	deadline    *Term
	hasDeadline bool
	timer       *vtimer
	key, val    Value
	id          int
}

func (r *Run) ctxIface(c *ctxObj) Value {
	var T types.Type
	P := r.e.P
	switch c.kind {
	case "background":
		T = P.namedType("context", "backgroundCtx")
	case "cancel":
		T = types.NewPointer(P.namedType("context", "cancelCtx"))
	case "timer":
		T = types.NewPointer(P.namedType("context", "timerCtx"))
	case "value":
		T = types.NewPointer(P.namedType("context", "valueCtx"))
	}
	return Iface{T: T, V: &Opaque{kind: "ctx", data: c}}
}

func (r *Run) ctxBackground() Value {
	if r.bgCtx == nil {
		r.bgCtx = &ctxObj{kind: "background", err: Iface{}}
	}
	return r.ctxIface(r.bgCtx)
}

func ctxOf(v Value) *ctxObj {
	if i, ok := v.(Iface); ok {
		if o, ok := i.V.(*Opaque); ok && o.kind == "ctx" {
			return o.data.(*ctxObj)
		}
	}
	return nil
}

// cancellable ancestor of a standard context (skipping value contexts)
func (c *ctxObj) canceller() *ctxObj {
	for x := c; x != nil; {
		switch x.kind {
		case "cancel", "timer":
			return x
		case "value":
			x = ctxOf(x.parent)
		default:
			return nil
		}
	}
	return nil
}

func (t *Thread) newChildCtx(kind string, parent Value) *ctxObj {
	r := t.run
	if pi, ok := parent.(Iface); !ok || pi.T == nil {
		panic(&GoPanic{msg: "panic: cannot create context from nil parent"})
	}
	r.ctxSeq++
	c := &ctxObj{kind: kind, parent: parent, done: r.newChan(0), err: Iface{}, id: r.ctxSeq}
	c.done.zero = Struct{}
	var up *ctxObj
	if pc := ctxOf(parent); pc != nil {
		up = pc.canceller()
	} else {
		// user-defined context type: find the standard context whose Done channel it exposes
		d, _ := t.invoke(parent.(Iface), "Done", nil).(*Chan)
		if d != nil {
			for _, x := range r.ctxs {
				if x.done == d {
					up = x
					break
				}
			}
			if up == nil {
				unsup("context derived from a foreign context whose Done channel is not a standard one")
			}
		}
	}
	r.ctxs = append(r.ctxs, c)
	if up != nil {
		if ei := up.err.(Iface); ei.T != nil {
			t.cancelCtx(c, up.err, nil)
		} else {
			up.children = append(up.children, c)
			c.up = up
		}
	}
	return c
}

func (t *Thread) cancelCtx(c *ctxObj, err Value, vc VC) {
	if ei := c.err.(Iface); ei.T != nil {
		return
	}
	c.err = err
	if !c.done.closed {
		c.done.closed = true
		if vc == nil {
			vc = t.vc.clone()
			t.tick()
		}
		c.done.closeVC = vc
		t.run.commitWaiters(c.done, false)
	}
	for _, ch := range c.children {
		ch.up = nil
		t.cancelCtx(ch, err, vc)
	}
	c.children = nil
	if c.up != nil {
		for i, x := range c.up.children {
			if x == c {
				c.up.children = append(c.up.children[:i:i], c.up.children[i+1:]...)
				break
			}
		}
		c.up = nil
	}
	if c.timer != nil {
		c.timer.active = false
	}
}

func (r *Run) ctxErrVar(name string) Value {
	g := r.e.P.prog.ImportedPackage("context").Var(name)
	return copyVal(*r.global(g))
}

func (t *Thread) cancelFunc(c *ctxObj) Value {
	return &Closure{Env: []Value{&Opaque{kind: "ctx", data: c}, t.run.e.strConst("cancel()")}}
}

func ctxWithCancel(t *Thread, a []Value) Value {
	c := t.newChildCtx("cancel", a[0])
	return Tuple{t.run.ctxIface(c), t.cancelFunc(c)}
}

func (t *Thread) withDeadline(parent Value, dl *Term) Value {
	r := t.run
	tt := r.e.tt
	// parent's earlier deadline wins
	if pc := ctxOf(parent); pc != nil {
		for x := pc; x != nil; x = ctxOf(x.parent) {
			if x.hasDeadline {
				if r.branch(tt.Bin(OpSle, x.deadline, dl), "parent deadline earlier") {
					c := t.newChildCtx("cancel", parent)
					return Tuple{r.ctxIface(c), t.cancelFunc(c)}
				}
				break
			}
		}
	}
	c := t.newChildCtx("timer", parent)
	c.deadline, c.hasDeadline = dl, true
	if ei := c.err.(Iface); ei.T == nil {
		if r.branch(tt.Bin(OpSle, dl, r.clock), "deadline passed") {
			t.cancelCtx(c, r.ctxErrVar("DeadlineExceeded"), nil)
		} else {
			tm := r.addTimer(t, tt.Bin(OpSub, dl, r.clock))
			tm.deadline = dl
			tm.fire = func(by *Thread) { by.cancelCtx(c, r.ctxErrVar("DeadlineExceeded"), tm.vc.clone()) }
			c.timer = tm
		}
	}
	return Tuple{r.ctxIface(c), t.cancelFunc(c)}
}

func ctxWithTimeout(t *Thread, a []Value) Value {
	return t.withDeadline(a[0], t.run.e.tt.Bin(OpAdd, t.run.clock, a[1].(*Term)))
}

func ctxWithDeadline(t *Thread, a []Value) Value {
	return t.withDeadline(a[0], timeExt(a[1]))
}

func ctxWithValue(t *Thread, a []Value) Value {
	r := t.run
	if pi, ok := a[0].(Iface); !ok || pi.T == nil {
		panic(&GoPanic{msg: "panic: cannot create context from nil parent"})
	}
	r.ctxSeq++
	c := &ctxObj{kind: "value", parent: a[0], key: a[1], val: a[2], err: Iface{}, id: r.ctxSeq}
	return r.ctxIface(c)
}

// opaqueMethod dispatches method calls on engine-owned objects.
func (t *Thread) opaqueMethod(o *Opaque, name string, args []Value) Value {
	r := t.run
	tt := r.e.tt
	switch o.kind {
	case "ctx":
		c := o.data.(*ctxObj)
		switch name {
		case "cancel()":
			t.yield("cancel")
			t.cancelCtx(c, r.ctxErrVar("Canceled"), nil)
			return nil
		case "Done":
			for x := c; x != nil; x = ctxOf(x.parent) {
				if x.kind == "cancel" || x.kind == "timer" {
					return x.done
				}
				if x.kind == "background" {
					break
				}
			}
			if c.kind == "value" && ctxOf(c.parent) == nil {
				return t.invoke(c.parent.(Iface), "Done", nil)
			}
			return (*Chan)(nil)
		case "Err":
			for x := c; x != nil; x = ctxOf(x.parent) {
				if x.kind == "cancel" || x.kind == "timer" {
					return x.err
				}
				if x.kind == "background" {
					break
				}
			}
			if c.kind == "value" && ctxOf(c.parent) == nil {
				return t.invoke(c.parent.(Iface), "Err", nil)
			}
			return Iface{}
		case "Deadline":
			for x := c; x != nil; x = ctxOf(x.parent) {
				if x.hasDeadline {
					return Tuple{r.timeValue(x.deadline), tt.Bool(true)}
				}
			}
			return Tuple{r.timeValue(tt.Const(64, 0)), tt.Bool(false)}
		case "Value":
			for x := c; x != nil; x = ctxOf(x.parent) {
				if x.kind == "value" && r.branch(r.e.eq(x.key, args[1]), "ctxkey") {
					return x.val
				}
				if x.kind == "value" && ctxOf(x.parent) == nil {
					return t.invoke(x.parent.(Iface), "Value", []Value{args[1]})
				}
			}
			return Iface{}
		case "String":
			return r.e.strConst("<context>")
		}
	case "rtype":
		T := o.data.(types.Type)
		switch name {
		case "Kind":
			return tt.Const(64, uint64(kindOf(T)))
		case "Comparable":
			return tt.Bool(types.Comparable(T))
		case "Elem":
			switch u := T.Underlying().(type) {
			case *types.Pointer:
				return r.rtypeIface(u.Elem())
			case *types.Slice:
				return r.rtypeIface(u.Elem())
			}
		case "String", "Name":
			return r.e.strConst(T.String())
		}
	}
	unsup("method %s on engine object %s", name, o.kind)
	return nil
}

// invoke calls a method by name on an interface value holding an interpreted type.
func (t *Thread) invoke(x Iface, name string, args []Value) Value {
	if x.T == nil {
		panic(&GoPanic{msg: "runtime error: invalid memory address or nil pointer dereference (method call on nil interface)"})
	}
	if op, ok := x.V.(*Opaque); ok {
		return t.opaqueMethod(op, name, append([]Value{x.V}, args...))
	}
	m := t.lookupMethod(x.T, name)
	if m == nil {
		unsup("invoke: no method %s on %v", name, x.T)
	}
	return t.callValue(m, append([]Value{x.V}, args...), nil)
}

func (t *Thread) lookupMethod(T types.Type, name string) Value {
	P := t.run.e.P
	ms := P.prog.MethodSets.MethodSet(T)
	for i := 0; i < ms.Len(); i++ {
		sel := ms.At(i)
		if sel.Obj().Name() == name {
			fn := P.prog.MethodValue(sel)
			if fn == nil {
				return nil
			}
			return &Closure{Fn: fn}
		}
	}
	return nil
}

// ---------------------------------------------------------------------------
// fmt.Errorf with %w keeps the chain (the real *fmt.wrapError shape)

func fmtErrorf(t *Thread, a []Value) Value {
	r := t.run
	format, _ := concreteStr(a[0].(Str))
	var wrapped []Value
	if va, ok := a[1].(Slice); ok && strings.Contains(format, "%w") {
		// arguments consumed by %w verbs, in order
		argi := 0
		for i := 0; i+1 < len(format); i++ {
			if format[i] != '%' {
				continue
			}
			i++
			if format[i] == '%' {
				continue
			}
			if format[i] == 'w' && argi < len(va.a) {
				if ei, ok := va.a[argi].(Iface); ok && ei.T != nil {
					wrapped = append(wrapped, ei)
				}
			}
			argi++
		}
	}
	msg := r.e.strConst("<errorf:" + format + ">")
	switch len(wrapped) {
	case 0:
		T := r.e.P.namedType("errors", "errorString")
		p := new(Value)
		*p = Struct{msg}
		return Iface{T: types.NewPointer(T), V: p}
	case 1:
		T := r.e.P.namedType("fmt", "wrapError")
		p := new(Value)
		*p = Struct{msg, wrapped[0]}
		return Iface{T: types.NewPointer(T), V: p}
	}
	T := r.e.P.namedType("fmt", "wrapErrors")
	p := new(Value)
	*p = Struct{msg, mkSlice(wrapped)}
	return Iface{T: types.NewPointer(T), V: p}
}

// ---------------------------------------------------------------------------
// reflect subset (answered from go/types)

type rvalue struct {
	T     types.Type
	V     Value
	valid bool
}

func kindOf(T types.Type) int {
	switch u := T.Underlying().(type) {
	case *types.Basic:
		switch u.Kind() {
		case types.Bool:
			return 1
		case types.Int:
			return 2
		case types.Int8:
			return 3
		case types.Int16:
			return 4
		case types.Int32:
			return 5
		case types.Int64:
			return 6
		case types.Uint:
			return 7
		case types.Uint8:
			return 8
		case types.Uint16:
			return 9
		case types.Uint32:
			return 10
		case types.Uint64:
			return 11
		case types.Uintptr:
			return 12
		case types.Float32:
			return 13
		case types.Float64:
			return 14
		case types.String:
			return 24
		case types.UnsafePointer:
			return 26
		}
	case *types.Array:
		return 17
	case *types.Chan:
		return 18
	case *types.Signature:
		return 19
	case *types.Interface:
		return 20
	case *types.Map:
		return 21
	case *types.Pointer:
		return 22
	case *types.Slice:
		return 23
	case *types.Struct:
		return 25
	}
	return 0
}

func (r *Run) rtypeIface(T types.Type) Value {
	rt := types.NewPointer(r.e.P.namedType("reflect", "rtype"))
	return Iface{T: rt, V: &Opaque{kind: "rtype", data: T}}
}

func reflTypeOf(t *Thread, a []Value) Value {
	x := a[0].(Iface)
	if x.T == nil {
		return Iface{}
	}
	return t.run.rtypeIface(x.T)
}

func reflValueOf(t *Thread, a []Value) Value {
	x := a[0].(Iface)
	if x.T == nil {
		return &Opaque{kind: "rvalue", data: &rvalue{}}
	}
	return &Opaque{kind: "rvalue", data: &rvalue{T: x.T, V: x.V, valid: true}}
}

func reflElem(t *Thread, a []Value) Value {
	rv := a[0].(*Opaque).data.(*rvalue)
	if !rv.valid {
		panic(&GoPanic{msg: "panic: reflect: call of reflect.Value.Elem on zero Value"})
	}
	switch u := rv.T.Underlying().(type) {
	case *types.Pointer:
		p := rv.V.(*Value)
		if p == nil {
			return &Opaque{kind: "rvalue", data: &rvalue{}}
		}
		return &Opaque{kind: "rvalue", data: &rvalue{T: u.Elem(), V: *p, valid: true}}
	case *types.Interface:
		i := rv.V.(Iface)
		if i.T == nil {
			return &Opaque{kind: "rvalue", data: &rvalue{}}
		}
		return &Opaque{kind: "rvalue", data: &rvalue{T: i.T, V: i.V, valid: true}}
	}
	panic(&GoPanic{msg: "panic: reflect: call of reflect.Value.Elem on " + rv.T.String() + " Value"})
}

func reflFieldByName(t *Thread, a []Value) Value {
	rv := a[0].(*Opaque).data.(*rvalue)
	name, _ := concreteStr(a[1].(Str))
	if !rv.valid {
		panic(&GoPanic{msg: "panic: reflect: call of reflect.Value.FieldByName on zero Value"})
	}
	st, ok := rv.T.Underlying().(*types.Struct)
	if !ok {
		panic(&GoPanic{msg: "panic: reflect: call of reflect.Value.FieldByName on " + rv.T.String() + " Value"})
	}
	obj, index, _ := types.LookupFieldOrMethod(rv.T, true, nil, name)
	if f, isVar := obj.(*types.Var); !isVar || !f.IsField() {
		// unexported names need the package; try a direct scan
		index = nil
		for i := 0; i < st.NumFields(); i++ {
			if st.Field(i).Name() == name {
				index = []int{i}
			}
		}
		if index == nil {
			return &Opaque{kind: "rvalue", data: &rvalue{}}
		}
	}
	cur := rv.V
	curT := rv.T
	for _, i := range index {
		for {
			if p, isP := curT.Underlying().(*types.Pointer); isP {
				pv := cur.(*Value)
				if pv == nil {
					return &Opaque{kind: "rvalue", data: &rvalue{}}
				}
				cur = *pv
				curT = p.Elem()
				continue
			}
			break
		}
		s := cur.(Struct)
		cur = s[i]
		curT = curT.Underlying().(*types.Struct).Field(i).Type()
	}
	return &Opaque{kind: "rvalue", data: &rvalue{T: curT, V: cur, valid: true}}
}

func reflInterface(t *Thread, a []Value) Value {
	rv := a[0].(*Opaque).data.(*rvalue)
	if !rv.valid {
		panic(&GoPanic{msg: "panic: reflect: call of reflect.Value.Interface on zero Value"})
	}
	if _, isI := rv.T.Underlying().(*types.Interface); isI {
		return rv.V // already an interface value; converting to interface{} keeps the dynamic type
	}
	return Iface{T: rv.T, V: rv.V}
}

// errors.As as a whole: chain walk with go/types assignability.
func errorsAs(t *Thread, a []Value) Value {
	r := t.run
	err := a[0].(Iface)
	target := a[1].(Iface)
	if target.T == nil {
		panic(&GoPanic{msg: "panic: errors: target cannot be nil"})
	}
	pt, ok := target.T.Underlying().(*types.Pointer)
	tp, _ := target.V.(*Value)
	if !ok || tp == nil {
		panic(&GoPanic{msg: "panic: errors: target must be a non-nil pointer"})
	}
	want := pt.Elem()
	for depth := 0; err.T != nil && depth < 64; depth++ {
		okAssign := false
		if it, isI := want.Underlying().(*types.Interface); isI {
			okAssign = r.e.P.implements(err.T, it)
			if okAssign {
				t.store(tp, err)
			}
		} else if types.Identical(err.T, want) {
			okAssign = true
			t.store(tp, err.V)
		}
		if okAssign {
			return r.e.tt.Bool(true)
		}
		if m := t.lookupMethod(err.T, "As"); m != nil {
			res := t.callValue(m, []Value{err.V, target}, nil)
			if b, isT := res.(*Term); isT && r.branch(b, "As()") {
				return r.e.tt.Bool(true)
			}
		}
		m := t.lookupMethod(err.T, "Unwrap")
		if m == nil {
			break
		}
		next, isI := t.callValue(m, []Value{err.V}, nil).(Iface)
		if !isI {
			break // Unwrap() []error not modelled
		}
		err = next
	}
	return r.e.tt.Bool(false)
}

// ---------------------------------------------------------------------------
// harness runtime API

func (r *Run) fresh(key string, w int) *Term {
	n := r.nondetCnt[key]
	r.nondetCnt[key] = n + 1
	k := key
	if n > 0 {
		k = fmt.Sprintf("%s#%d", key, n)
	}
	name := "v_" + sanitize(k)
	v := r.e.tt.Var(w, name)
	r.nondets = append(r.nondets, nondetRec{key: k, term: v})
	return v
}

func sanitize(s string) string {
	var sb strings.Builder
	for _, c := range s {
		switch {
		case c >= 'a' && c <= 'z', c >= 'A' && c <= 'Z', c >= '0' && c <= '9', c == '_':
			sb.WriteRune(c)
		default:
			fmt.Fprintf(&sb, "_%02x", c)
		}
	}
	return sb.String()
}

func argStr(v Value) string {
	s, _ := concreteStr(v.(Str))
	return s
}

var verifAPI = map[string]intrinsic{
	"verifNondetU8":   func(t *Thread, a []Value) Value { return t.run.fresh(argStr(a[0]), 8) },
	"verifNondetU16":  func(t *Thread, a []Value) Value { return t.run.fresh(argStr(a[0]), 16) },
	"verifNondetU32":  func(t *Thread, a []Value) Value { return t.run.fresh(argStr(a[0]), 32) },
	"verifNondetU64":  func(t *Thread, a []Value) Value { return t.run.fresh(argStr(a[0]), 64) },
	"verifNondetInt":  func(t *Thread, a []Value) Value { return t.run.fresh(argStr(a[0]), 64) },
	"verifNondetDur":  func(t *Thread, a []Value) Value { return t.run.fresh(argStr(a[0]), 64) },
	"verifNondetBool": func(t *Thread, a []Value) Value { return t.run.fresh(argStr(a[0]), 0) },
	"verifChoice": func(t *Thread, a []Value) Value {
		r := t.run
		key := argStr(a[0])
		n := int(r.concretize(a[1].(*Term), "choice n"))
		cnt := r.choiceCnt[key]
		r.choiceCnt[key] = cnt + 1
		if cnt > 0 {
			key = fmt.Sprintf("%s#%d", key, cnt)
		}
		k := 0
		if n > 1 {
			k = r.decide('C', n, key, 0)
		}
		r.choices[key] = k
		return r.e.tt.Const(64, uint64(k))
	},
	"verifAssume": func(t *Thread, a []Value) Value { t.run.assume(a[0].(*Term)); return nil },
	"verifAssert": func(t *Thread, a []Value) Value { t.run.assert(a[0].(*Term), argStr(a[1])); return nil },
	"verifAnd":    func(t *Thread, a []Value) Value { return t.run.e.tt.BAnd(a[0].(*Term), a[1].(*Term)) },
	"verifOr":     func(t *Thread, a []Value) Value { return t.run.e.tt.BOr(a[0].(*Term), a[1].(*Term)) },
	"verifImplies": func(t *Thread, a []Value) Value {
		return t.run.e.tt.BOr(t.run.e.tt.BNot(a[0].(*Term)), a[1].(*Term))
	},
	"verifBytesEq": func(t *Thread, a []Value) Value {
		x, y := a[0].(Slice), a[1].(Slice)
		return t.run.e.eq(Str{sliceBytes(x)}, Str{sliceBytes(y)})
	},
	"verifStrEq": func(t *Thread, a []Value) Value { return t.run.e.eq(a[0], a[1]) },
	"verifIteU8": func(t *Thread, a []Value) Value {
		return t.run.e.tt.Ite(a[0].(*Term), a[1].(*Term), a[2].(*Term))
	},
	"verifIteU16": func(t *Thread, a []Value) Value {
		return t.run.e.tt.Ite(a[0].(*Term), a[1].(*Term), a[2].(*Term))
	},
	"verifReach": func(t *Thread, a []Value) Value { t.run.reach[argStr(a[0])] = true; return nil },
	"verifYield": func(t *Thread, a []Value) Value {
		// a scheduling point placed by the harness (inside its transport): any enabled thread may run
		// next; a free choice, not charged to the delay bound
		saved := t.atomicDepth
		t.atomicDepth = 0
		r := t.run
		r.schedPoints++
		others := r.enabledAfter(t)
		others = others[:r.nNormal]
		if len(others) > 0 {
			k := r.decide('Y', 1+len(others), "verifYield", 0)
			if k > 0 {
				t.state = tRunnable
				t.handoff(others[k-1])
			}
		}
		t.atomicDepth = saved
		return nil
	},
	"verifOnQuiescence": func(t *Thread, a []Value) Value { t.run.onQuiesce = append(t.run.onQuiesce, a[0]); return nil },
	"verifNow":          func(t *Thread, a []Value) Value { return t.run.clock },
	"verifPause": func(t *Thread, a []Value) Value {
		t.parked = true
		t.block(func() bool { return false }, "pause")
		return nil
	},
	"verifPauseAny": func(t *Thread, a []Value) Value {
		t.parked = true
		t.parkedAny = true
		t.block(func() bool { return false }, "pause-any")
		return nil
	},
	"verifSettle": func(t *Thread, a []Value) Value { return nil },
	"verifLive": func(t *Thread, a []Value) Value {
		n := 0
		for _, th := range t.run.threads {
			if th.lib && th.state != tDone {
				n++
			}
		}
		return t.run.e.tt.Const(64, uint64(n))
	},
	"verifEvent":    func(t *Thread, a []Value) Value { t.run.event(mustStr(a[0].(Str))); return nil },
	"verifIOWrite": func(t *Thread, a []Value) Value {
		t.run.ioSync.join(t.vc)
		t.tick()
		return nil
	},
	"verifIORead": func(t *Thread, a []Value) Value {
		t.vc.join(t.run.ioSync)
		return nil
	},
	"verifLock":     func(t *Thread, a []Value) Value { t.atomicDepth++; return nil },
	"verifUnlock":   func(t *Thread, a []Value) Value { t.atomicDepth--; return nil },
	"verifSymbolic": func(t *Thread, a []Value) Value { return t.run.e.tt.Bool(true) },
	"verifExpectMake": func(t *Thread, a []Value) Value {
		t.run.makeLimit[argStr(a[0])] = int64(t.run.concretize(a[1].(*Term), "limit"))
		return nil
	},
	"verifParam": func(t *Thread, a []Value) Value {
		v, ok := t.run.e.cfg.Params[argStr(a[0])]
		if !ok {
			return a[1]
		}
		return t.run.e.tt.Const(64, uint64(int64(v)))
	},
	"verifSetRand": func(t *Thread, a []Value) Value {
		t.run.randPinned = int64(t.run.concretize(a[0].(*Term), "rand"))
		return nil
	},
	"verifExpectMakeEq": func(t *Thread, a []Value) Value {
		t.run.makeEq[argStr(a[0])] = a[1].(*Term)
		return nil
	},
	"verifCut": func(t *Thread, a []Value) Value {
		t.run.cuts = append(t.run.cuts, argStr(a[0]))
		return nil
	},
	// verifBlockUntil(f): block the calling (harness) thread until f() is true; f must be side-effect free
	"verifWaitCond": func(t *Thread, a []Value) Value {
		f := a[0]
		eval := func() bool {
			saved := t.run.noSched
			t.run.noSched = true
			defer func() { t.run.noSched = saved }()
			b := t.callValue(f, nil, nil).(*Term)
			return b.IsTrue()
		}
		if !eval() {
			t.block(eval, "waitcond")
		}
		return nil
	},
}
