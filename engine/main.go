package main

import (
	"strconv"
	"encoding/json"
	"flag"
	"fmt"
	"os"
	"runtime/pprof"
	"sort"
	"strings"
	"time"
)

type HarnessOut struct {
	Harness      string                   `json:"harness"`
	Verdict      string                   `json:"verdict"` // held | violated | inconclusive
	Paths        int                      `json:"paths"`
	Infeasible   int                      `json:"infeasible_prefixes"`
	Decisions    int                      `json:"decisions"`
	DecisionKind map[string]int           `json:"decision_kinds"`
	Steps        int                      `json:"ssa_steps"`
	Violations   []Violation              `json:"violations"`
	Bounds       map[string]int           `json:"bound_hits"`
	Unsupported  map[string]int           `json:"unsupported"`
	Internal     map[string]int           `json:"internal_errors"`
	Unknowns     int                      `json:"solver_unknowns"`
	Reach        map[string]int           `json:"reach"`
	Ends         map[string]int           `json:"path_ends"`
	Cuts         map[string]int           `json:"cuts"`
	Foreign      map[string]int           `json:"foreign_globals_read"`
	Queries      map[string]int           `json:"queries"`
	SolverSec    float64                  `json:"solver_s"`
	WallSec      float64                  `json:"wall_s"`
	RepoFns      []map[string]interface{} `json:"functions_encoded"`
	StdFns       []string                 `json:"stdlib_functions_interpreted"`
	Intrinsics   map[string]int           `json:"intrinsics_hit"`
	Samples      []string                 `json:"samples"`
	DistinctEv   int                      `json:"distinct_event_strings"`
	SchedPoints  int                      `json:"sched_points"`
	Switches     int                      `json:"thread_switches"`
	Truncated    bool                     `json:"truncated"`
	Config       Config                   `json:"bounds"`
	Why          []string                 `json:"inconclusive_reasons,omitempty"`
}

func main() {
	repo := flag.String("repo", "/repo", "repository")
	hdir := flag.String("harness-dir", "/verif/harness", "harness directory")
	files := flag.String("files", "", "comma-separated harness files (default: all *.go except *_test.go)")
	hs := flag.String("harness", "", "comma-separated harness functions")
	out := flag.String("out", "", "output JSON file")
	cfg := Config{}
	flag.IntVar(&cfg.MaxLoop, "loop", 64, "loop header visits per activation")
	flag.IntVar(&cfg.MaxDepth, "depth", 200, "call depth")
	flag.IntVar(&cfg.MaxSteps, "steps", 2000000, "SSA instructions per path")
	flag.IntVar(&cfg.MaxTicks, "ticks", 8, "ticker fires per path (horizon)")
	flag.IntVar(&cfg.MakeCut, "makecut", 16, "continue symbolic make only up to this length")
	flag.IntVar(&cfg.Delays, "delays", 0, "scheduler delay bound D")
	flag.BoolVar(&cfg.AnyOnly, "anyonly", false, "spend the delay budget only on resuming threads parked with verifPauseAny")
	flag.BoolVar(&cfg.TimerPreempt, "timerpreempt", false, "a pending timer may fire at any scheduling point (charged to the delay bound)")
	flag.BoolVar(&cfg.Race, "race", false, "happens-before race detection")
	flag.StringVar(&cfg.Solver, "solver", "z3", "z3 | z3-new | cvc5")
	flag.StringVar(&cfg.XSolver, "xsolver", "", "second solver cross-checking every assertion verdict (z3-new | cvc5)")
	flag.IntVar(&cfg.TimeoutMs, "timeout-ms", 60000, "per-query solver timeout")
	flag.IntVar(&cfg.MaxPaths, "max-paths", 0, "stop after this many paths (0 = none); stopping is inconclusive")
	flag.IntVar(&cfg.Workers, "workers", 16, "parallel workers")
	flag.IntVar(&cfg.Verbose, "v", 0, "verbosity")
	params := flag.String("params", "", "k=v,k=v harness parameters (bounds)")
	required := flag.String("require-reach", "", "comma-separated reach markers that must be hit on some path")
	cpuprof := flag.String("cpuprofile", "", "write cpu profile")
	flag.Parse()
	if w, err := strconv.Atoi(os.Getenv("SYMGO_WORKERS")); err == nil && w > 0 {
		cfg.Workers = w // lets two batches share the machine
	}
	if *cpuprof != "" {
		f, _ := os.Create(*cpuprof)
		pprof.StartCPUProfile(f)
		defer pprof.StopCPUProfile()
	}

	cfg.Params = map[string]int{}
	for _, kv := range strings.Split(*params, ",") {
		if i := strings.Index(kv, "="); i > 0 {
			n := 0
			fmt.Sscanf(kv[i+1:], "%d", &n)
			cfg.Params[kv[:i]] = n
		}
	}
	var fl []string
	if *files != "" {
		fl = strings.Split(*files, ",")
	} else {
		ents, _ := os.ReadDir(*hdir)
		for _, e := range ents {
			if strings.HasSuffix(e.Name(), ".go") && !strings.HasSuffix(e.Name(), "_test.go") {
				fl = append(fl, e.Name())
			}
		}
	}
	t0 := time.Now()
	P, err := LoadProgram(*repo, *hdir, fl)
	if err != nil {
		fmt.Fprintln(os.Stderr, "LOAD-ERROR:", err)
		os.Exit(3)
	}
	loadS := time.Since(t0).Seconds()
	var outs []HarnessOut
	exit := 0
	for _, h := range strings.Split(*hs, ",") {
		if h == "" {
			continue
		}
		sum := Explore(P, cfg, h)
		o := HarnessOut{Harness: h, Paths: sum.Paths, Infeasible: sum.Infeasible, Decisions: sum.Decisions, DecisionKind: sum.KindCount,
			Steps: sum.Steps, Violations: sum.Violations, Bounds: sum.Bounds, Unsupported: sum.Unsup, Internal: sum.Internal,
			Unknowns: sum.Unknowns, Reach: sum.Reach, Ends: sum.Ends, Cuts: sum.Cuts, Foreign: sum.Foreign,
			Queries:   map[string]int{"total": sum.Queries, "sat": sum.QSat, "unsat": sum.QUnsat, "unknown": sum.QUnknown, "solver_errors": sum.SolverErr, "assertion_verdicts_cross_checked": sum.XChecked},
			SolverSec: sum.SolverSec, WallSec: sum.WallSec, Intrinsics: sum.IntrHit, SchedPoints: sum.SchedPts, Switches: sum.Switches,
			Truncated: sum.Truncated, Config: cfg}
		o.RepoFns, o.StdFns = P.describeFns(sum.FnHit)
		var evs []string
		for e := range sum.EventSeqs {
			evs = append(evs, e)
		}
		sort.Strings(evs)
		o.DistinctEv = len(evs)
		for i, e := range evs {
			if i < 12 {
				o.Samples = append(o.Samples, e)
			}
		}
		// verdict
		if len(sum.Bounds) > 0 {
			o.Why = append(o.Why, "unwinding/step bound hit")
		}
		if len(sum.Unsup) > 0 {
			o.Why = append(o.Why, "unsupported construct")
		}
		if len(sum.Internal) > 0 {
			o.Why = append(o.Why, "internal error")
		}
		if sum.Unknowns > 0 || sum.SolverErr > 0 {
			o.Why = append(o.Why, "solver unknown/error")
		}
		if sum.Truncated {
			o.Why = append(o.Why, "path budget exhausted")
		}
		if sum.Paths == 0 {
			o.Why = append(o.Why, "vacuous: no feasible path")
		}
		for _, m := range strings.Split(*required, ",") {
			if m != "" && strings.HasPrefix(m, h+":") {
				if sum.Reach[strings.TrimPrefix(m, h+":")] == 0 {
					o.Why = append(o.Why, "vacuous: reach marker "+m+" never hit")
				}
			}
		}
		switch {
		case len(sum.Violations) > 0:
			o.Verdict = "violated"
			if exit == 0 {
				exit = 1
			}
		case len(o.Why) > 0:
			o.Verdict = "inconclusive"
			exit = 2
		default:
			o.Verdict = "held"
		}
		if len(sum.Violations) > 0 && len(o.Why) > 0 && exit == 1 {
			// violations stand even when other paths were inconclusive
		}
		outs = append(outs, o)
		if cfg.Verbose > 0 || *out == "" {
			fmt.Fprintf(os.Stderr, "%-28s %-12s paths=%d infeasible=%d decisions=%d queries=%d (unknown %d) solver=%.2fs wall=%.2fs\n",
				h, o.Verdict, o.Paths, o.Infeasible, o.Decisions, sum.Queries, sum.QUnknown, sum.SolverSec, sum.WallSec)
			for _, w := range o.Why {
				fmt.Fprintln(os.Stderr, "   inconclusive:", w)
			}
			for k, n := range sum.Bounds {
				fmt.Fprintln(os.Stderr, "   bound:", k, n)
			}
			for k, n := range sum.Unsup {
				fmt.Fprintln(os.Stderr, "   unsupported:", k, n)
			}
			for k, n := range sum.Internal {
				fmt.Fprintln(os.Stderr, "   internal:", k, n)
			}
			for _, v := range sum.Violations {
				fmt.Fprintf(os.Stderr, "   VIOL %s: %s site=%s nondets=%v choices=%v events=%v\n", v.Assert, v.Msg, v.Site, v.Nondets, v.Choices, v.Events)
			}
		}
	}
	res := map[string]interface{}{"load_s": loadS, "harnesses": outs}
	b, _ := json.MarshalIndent(res, "", " ")
	if *out != "" {
		os.WriteFile(*out, b, 0o644)
	}
	if *cpuprof != "" {
		pprof.StopCPUProfile()
	}
	os.Exit(exit)
}
