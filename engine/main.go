package main

import (
	_ "golang.org/x/tools/go/packages"
	_ "golang.org/x/tools/go/ssa"
	_ "golang.org/x/tools/go/ssa/ssautil"
)

func main() {}
