package main

// Interpreted goroutines are threads of the executor; exactly one runs at a
// time (baton passing), so a run is deterministic given its decision vector.

import (
	"fmt"
	"go/types"
	"sort"

	"golang.org/x/tools/go/ssa"
)

type VC []int

func (v VC) get(i int) int {
	if i < len(v) {
		return v[i]
	}
	return 0
}
func (v *VC) join(o VC) {
	for i, x := range o {
		for len(*v) <= i {
			*v = append(*v, 0)
		}
		if x > (*v)[i] {
			(*v)[i] = x
		}
	}
}
func (v VC) clone() VC { return append(VC{}, v...) }

const (
	tRunnable = iota
	tBlocked
	tDone
)

type waitCase struct {
	ch   *Chan
	send bool
	val  Value
}

type Thread struct {
	id             int
	run            *Run
	name           string
	wake           chan struct{}
	state          int
	cond           func() bool
	what           string
	cases          []waitCase
	completed      int
	commit         int // select case a parked thread is committed to (the first one that became ready), -1 none
	recvVal        Value
	recvOk         bool
	top            *Frame
	depth          int
	deferringFrame *Frame
	vc             VC
	parked         bool
	parkedAny      bool // environment thread that may also be resumed at any scheduling point (costs a delay)
	lib            bool // goroutine started by library (non-harness) code
	atomicDepth    int
	spawnSite      string
}

type chanMsg struct {
	v  Value
	vc VC
}

type Chan struct {
	id      int
	cap     int
	buf     []chanMsg
	closed  bool
	closeVC VC
	zero    Value
}

func (r *Run) newChan(n int) *Chan {
	r.chanSeq++
	return &Chan{id: r.chanSeq, cap: n}
}

func (t *Thread) tick() {
	for len(t.vc) <= t.id {
		t.vc = append(t.vc, 0)
	}
	t.vc[t.id]++
}

// ---------------------------------------------------------------------------
// switching

func (r *Run) newThread(name string, lib bool, parent *Thread) *Thread {
	t := &Thread{id: len(r.threads), run: r, name: name, wake: make(chan struct{}, 1), lib: lib, completed: -1, commit: -1}
	if parent != nil {
		// publish, then advance: what the parent does after the go statement is not ordered before the child
		t.vc = parent.vc.clone()
		parent.tick()
	}
	t.tick()
	r.threads = append(r.threads, t)
	return t
}

// start launches the goroutine for t; it waits for the baton first.
func (r *Run) start(t *Thread, body func()) {
	r.wg.Add(1)
	go func() {
		defer r.wg.Done()
		<-t.wake
		defer func() {
			x := recover()
			switch p := x.(type) {
			case nil:
			case abortRun:
				if !r.aborting {
					r.endRun(p.why)
				}
				return
			case unsupported:
				r.unsupported = append(r.unsupported, p.what)
				r.endRun("UNSUPPORTED:" + p.what)
				return
			case *GoPanic:
				r.uncaughtPanic(t, p)
				r.endRun("panic")
				return
			default:
				r.internalErr = fmt.Sprintf("%v", x)
				r.endRun("INTERNAL:" + r.internalErr)
				return
			}
			// normal end of thread
			t.state = tDone
			t.tick()
			r.dispatch(t)
		}()
		if r.aborting {
			panic(abortRun{"aborting"})
		}
		body()
	}()
}

// endRun terminates the whole run: every parked goroutine is woken and unwinds.
func (r *Run) endRun(why string) {
	if r.aborting {
		return
	}
	r.aborting = true
	r.endWhy = why
	for _, th := range r.threads {
		if th.state != tDone && th != r.cur {
			select {
			case th.wake <- struct{}{}:
			default:
			}
		}
	}
	close(r.done)
}

// handoff gives the baton to next and parks the calling thread (unless done).
func (t *Thread) handoff(next *Thread) {
	r := t.run
	if next == t {
		return
	}
	r.cur = next
	r.switches++
	next.wake <- struct{}{}
	if t.state == tDone {
		return
	}
	<-t.wake
	if r.aborting {
		panic(abortRun{"aborting"})
	}
}

// enabled lists the threads that can make progress, in round-robin order after from;
// environment threads parked with verifPauseAny come last (they are never the base choice).
func (r *Run) enabledAfter(from *Thread) []*Thread {
	n := len(r.threads)
	var out, any []*Thread
	for k := 1; k <= n; k++ {
		th := r.threads[(from.id+k)%n]
		if th == from {
			continue
		}
		if th.state == tRunnable || (th.state == tBlocked && !th.parked && th.cond != nil && th.cond()) {
			out = append(out, th)
		} else if th.state == tBlocked && th.parkedAny && r.delaysUsed < r.e.cfg.Delays {
			any = append(any, th)
		}
	}
	r.nNormal = len(out)
	return append(out, any...)
}

func (th *Thread) unpark() {
	if th.parkedAny || th.parked {
		th.parked = false
		th.parkedAny = false
		th.cond = func() bool { return true }
	}
}

// yield is a scheduling point of a thread that can continue.
func (t *Thread) yield(label string) {
	r := t.run
	if t.atomicDepth > 0 || r.noSched {
		return
	}
	r.schedPoints++
	if r.delaysUsed >= r.e.cfg.Delays {
		// still honour recorded decisions (none can exist beyond budget)
		return
	}
	others := r.enabledAfter(t)
	if r.e.cfg.AnyOnly {
		// -anyonly: a running thread is preempted only in favour of an environment thread parked with
		// verifPauseAny (an application action "at any point"); the remaining budget can still be spent on
		// the order in which runnable threads are picked when the current one blocks or ends
		others = others[r.nNormal:]
	}
	// -timerpreempt: a pending timer may fire at this very point (computation takes arbitrarily long), and the
	// goroutine it wakes runs at once; charged to the delay bound like any other preemption
	timerAlt := 0
	if r.e.cfg.TimerPreempt && !r.horizon && r.hasActiveTimer() {
		timerAlt = 1
	}
	if len(others)+timerAlt == 0 {
		return
	}
	k := r.decide('S', 1+len(others)+timerAlt, "yield:"+label, 1)
	if k == 0 {
		return
	}
	r.delaysUsed++
	if k == 1+len(others) {
		before := map[*Thread]bool{}
		for _, th := range others {
			before[th] = true
		}
		r.event("~clock!")
		r.advanceClock(t)
		for _, th := range r.enabledAfter(t) {
			if !before[th] && !th.parkedAny {
				t.state = tRunnable
				t.handoff(th)
				return
			}
		}
		return
	}
	t.state = tRunnable
	others[k-1].unpark()
	t.handoff(others[k-1])
}

// block parks the thread until cond() holds.
func (t *Thread) block(cond func() bool, what string) {
	r := t.run
	if t.atomicDepth > 0 {
		unsup("blocking inside a harness atomic section: %s", what)
	}
	t.state = tBlocked
	t.cond = cond
	t.what = what
	r.dispatch(t)
	// resumed
	t.state = tRunnable
	t.cond = nil
	t.what = ""
}

// dispatch picks the next thread after t blocked or finished.  It returns when t is resumed.
func (r *Run) dispatch(t *Thread) {
	for {
		en := r.enabledAfter(t)
		// t itself may have become enabled again (e.g. a timer fired for it)
		if t.state == tBlocked && !t.parked && t.cond != nil && t.cond() {
			en = append(en, t)
		}
		normal := r.nNormal
		if t.state == tBlocked && !t.parked && t.cond != nil && t.cond() {
			normal++
		}
		if normal > 0 {
			// keep the base choice a normal thread: move t (if re-enabled) before the any-parked ones
			if len(en) > 1 && en[len(en)-1] == t && normal < len(en) {
				copy(en[normal:], en[normal-1:len(en)-1])
				en[normal-1] = t
			}
			k := 0
			if len(en) > 1 && r.delaysUsed < r.e.cfg.Delays {
				k = r.decide('S', len(en), "dispatch", 1)
				if k > 0 {
					r.delaysUsed++
				}
			}
			next := en[k]
			next.unpark()
			if next == t {
				return
			}
			t.handoff(next)
			return
		}
		// nothing can run: environment threads, timers, or quiescence
		var opts []func()
		var labels []string
		for _, th := range r.threads {
			if th.state == tBlocked && th.parked {
				th := th
				opts = append(opts, func() { th.parked = false; th.cond = func() bool { return true } })
				labels = append(labels, "resume:"+th.name)
			}
		}
		if r.hasActiveTimer() {
			opts = append(opts, func() { r.advanceClock(t) })
			labels = append(labels, "clock")
		}
		if len(opts) == 0 {
			if !r.quiesce(t) {
				r.endRun("quiescent")
				if t.state == tDone {
					return
				}
				panic(abortRun{"quiescent"})
			}
			continue
		}
		k := 0
		if len(opts) > 1 {
			k = r.decide('T', len(opts), "idle", 0)
		}
		r.event("~" + labels[k])
		opts[k]()
	}
}

// quiesce runs the next quiescence callback (on a fresh thread); false if none left.
func (r *Run) quiesce(t *Thread) bool {
	r.quiescences++
	if len(r.onQuiesce) == 0 {
		return false
	}
	f := r.onQuiesce[0]
	r.onQuiesce = r.onQuiesce[1:]
	q := r.newThread("quiesce", false, nil)
	// the quiescence observer happens-after everything
	for _, th := range r.threads {
		q.vc.join(th.vc)
	}
	r.start(q, func() { q.callValue(f, nil, nil) })
	return true
}

func (t *Thread) spawn(fnv Value, args []Value, site *ssa.Go) {
	r := t.run
	lib := true
	name := "go"
	if site != nil {
		fn := site.Parent()
		lib = !r.e.P.isHarnessFn(fn)
		name = fmt.Sprintf("go@%s", r.e.P.pos(site.Pos()))
	}
	nt := r.newThread(name, lib, t)
	nt.spawnSite = name
	r.start(nt, func() { nt.doCall(fnv, args, nil) })
	t.yield("go")
}

// ---------------------------------------------------------------------------
// channels

func (r *Run) findPartner(ch *Chan, wantSend bool, except *Thread) (*Thread, int) {
	for _, th := range r.threads {
		if th == except || th.state != tBlocked || th.completed >= 0 {
			continue
		}
		// a goroutine parked in select is woken by the first case that fires and is dequeued from all
		// its channels at that moment: if one of its cases is already ready on its own (closed channel,
		// buffered data, buffer space) it is committed to that and no longer a rendezvous partner
		committed := false
		for _, c := range th.cases {
			if c.ch == nil {
				continue
			}
			if c.send && (c.ch.closed || len(c.ch.buf) < c.ch.cap) || !c.send && (c.ch.closed || len(c.ch.buf) > 0) {
				committed = true
			}
		}
		if committed {
			continue
		}
		for i, c := range th.cases {
			if c.ch == ch && c.send == wantSend {
				return th, i
			}
		}
	}
	return nil, -1
}

func (r *Run) caseReady(t *Thread, c waitCase) bool {
	if c.ch == nil {
		return false
	}
	if c.send {
		if c.ch.closed || len(c.ch.buf) < c.ch.cap {
			return true
		}
		p, _ := r.findPartner(c.ch, false, t)
		return p != nil
	}
	if len(c.ch.buf) > 0 || c.ch.closed {
		return true
	}
	p, _ := r.findPartner(c.ch, true, t)
	return p != nil
}

// chanOp performs a (possibly multi-way) communication.  Returns the chosen
// case (-1 = default), and for receives the value and ok flag.
func (t *Thread) chanOp(cases []waitCase, hasDefault bool, label string) (int, Value, bool) {
	r := t.run
	t.yield(label)
	for {
		var ready []int
		for i, c := range cases {
			if r.caseReady(t, c) {
				ready = append(ready, i)
			}
		}
		if len(ready) > 0 {
			k := 0
			if t.commit >= 0 {
				// a goroutine parked in select is woken by the first case that fires and takes that one,
				// whatever else has become ready by the time it runs
				for j, i := range ready {
					if i == t.commit {
						k = j
					}
				}
				if ready[k] != t.commit && len(ready) > 1 {
					k = r.decide('L', len(ready), "select", 0)
				}
			} else if len(ready) > 1 {
				k = r.decide('L', len(ready), "select", 0)
			}
			t.commit = -1
			idx := ready[k]
			v, ok := t.execCase(cases[idx])
			return idx, v, ok
		}
		if hasDefault {
			return -1, nil, false
		}
		t.cases = cases
		t.completed = -1
		t.commit = -1
		t.block(func() bool {
			if t.completed >= 0 {
				return true
			}
			for _, c := range cases {
				if r.caseReady(t, c) {
					return true
				}
			}
			return false
		}, "chan:"+label)
		t.cases = nil
		if t.completed >= 0 {
			idx := t.completed
			t.completed = -1
			return idx, t.recvVal, t.recvOk
		}
	}
}

func (t *Thread) execCase(c waitCase) (Value, bool) {
	r := t.run
	ch := c.ch
	if c.send {
		if ch.closed {
			panic(&GoPanic{msg: "panic: send on closed channel"})
		}
		// release semantics: the vector clock is published first and the sender's own component advanced
		// afterwards, so that what the sender does after the send is not taken to be ordered before the receiver
		if len(ch.buf) == 0 {
			if p, i := r.findPartner(ch, false, t); p != nil {
				p.completed = i
				p.recvVal, p.recvOk = c.val, true
				pv := p.vc.clone()
				p.vc.join(t.vc)
				if ch.cap == 0 {
					t.vc.join(pv)
					p.tick()
				}
				t.tick()
				return nil, false
			}
		}
		if len(ch.buf) < ch.cap {
			ch.buf = append(ch.buf, chanMsg{c.val, t.vc.clone()})
			t.tick()
			return nil, false
		}
		panic("execCase: send not ready")
	}
	// receive
	if len(ch.buf) > 0 {
		m := ch.buf[0]
		ch.buf = ch.buf[1:]
		t.vc.join(m.vc)
		if p, i := r.findPartner(ch, true, t); p != nil {
			// a blocked sender can now deposit its value
			ch.buf = append(ch.buf, chanMsg{p.cases[i].val, p.vc.clone()})
			p.tick()
			p.completed = i
		}
		return m.v, true
	}
	if p, i := r.findPartner(ch, true, t); p != nil {
		v := p.cases[i].val
		pv := p.vc.clone()
		p.vc.join(t.vc)
		t.vc.join(pv)
		p.tick()
		t.tick()
		p.completed = i
		return v, true
	}
	if ch.closed {
		t.vc.join(ch.closeVC)
		return copyVal(ch.zero), false
	}
	panic("execCase: recv not ready")
}

func (t *Thread) chanSend(ch *Chan, v Value) {
	if ch == nil {
		t.block(func() bool { return false }, "send on nil chan")
	}
	t.chanOp([]waitCase{{ch: ch, send: true, val: v}}, false, "send")
}

func (t *Thread) chanRecv(ch *Chan, typ types.Type, commaOk bool) (Value, bool) {
	if ch == nil {
		t.block(func() bool { return false }, "recv on nil chan")
	}
	if ch.zero == nil {
		et := typ
		if commaOk {
			et = typ.(*types.Tuple).At(0).Type()
		}
		ch.zero = t.run.e.zero(et)
	}
	_, v, ok := t.chanOp([]waitCase{{ch: ch}}, false, "recv")
	return v, ok
}

func (t *Thread) chanClose(ch *Chan) {
	if ch == nil {
		panic(&GoPanic{msg: "panic: close of nil channel"})
	}
	t.yield("close")
	if ch.closed {
		panic(&GoPanic{msg: "panic: close of closed channel"})
	}
	ch.closed = true
	ch.closeVC = t.vc.clone()
	t.tick()
	t.run.commitWaiters(ch, false)
}

// commitWaiters: ch has just become ready on its own (closed, or a value was buffered); threads parked in a
// select on it that are not yet committed to another case are committed to this one (all of them for a
// close, the first one for a buffered value).
func (r *Run) commitWaiters(ch *Chan, onlyFirst bool) {
	for _, th := range r.threads {
		if th.state != tBlocked || th.completed >= 0 || th.commit >= 0 || th.cases == nil {
			continue
		}
		for i, c := range th.cases {
			if c.ch == ch && (ch.closed || !c.send) {
				th.commit = i
				break
			}
		}
		if th.commit >= 0 && onlyFirst {
			return
		}
	}
}

func (t *Thread) selectOp(fr *Frame, in *ssa.Select) Value {
	e := t.run.e
	cases := make([]waitCase, len(in.States))
	for i, st := range in.States {
		ch, _ := fr.get(st.Chan).(*Chan)
		cases[i] = waitCase{ch: ch, send: st.Dir == types.SendOnly}
		if cases[i].send {
			cases[i].val = fr.get(st.Send)
		} else if ch != nil && ch.zero == nil {
			ch.zero = e.zero(st.Chan.Type().Underlying().(*types.Chan).Elem())
		}
	}
	idx, v, ok := t.chanOp(cases, !in.Blocking, "select")
	res := Tuple{e.tt.Const(64, uint64(int64(idx))), e.tt.Bool(ok)}
	for i, st := range in.States {
		if st.Dir == types.RecvOnly {
			if i == idx {
				res = append(res, v)
			} else {
				res = append(res, e.zero(st.Chan.Type().Underlying().(*types.Chan).Elem()))
			}
		}
	}
	return res
}

// ---------------------------------------------------------------------------
// virtual time

type vtimer struct {
	id       int
	deadline *Term
	period   *Term // tickers
	ch       *Chan
	fire     func(by *Thread) // AfterFunc / context deadline
	active   bool
	vc       VC
}

func (r *Run) hasActiveTimer() bool {
	for _, tm := range r.timers {
		if tm.active {
			return true
		}
	}
	return false
}

func (r *Run) addTimer(t *Thread, d *Term) *vtimer {
	r.timerSeq++
	tm := &vtimer{id: r.timerSeq, deadline: r.e.tt.Bin(OpAdd, r.clock, d), active: true, vc: t.vc.clone()}
	t.tick()
	r.timers = append(r.timers, tm)
	return tm
}

// advanceClock moves virtual time to the earliest deadline and fires that timer.
func (r *Run) advanceClock(by *Thread) {
	tt := r.e.tt
	var cand *vtimer
	for _, tm := range r.timers {
		if !tm.active {
			continue
		}
		if cand == nil {
			cand = tm
			continue
		}
		if r.branch(tt.Bin(OpSlt, tm.deadline, cand.deadline), "timer order") {
			cand = tm
		}
	}
	if cand == nil {
		return
	}
	if r.branch(tt.Bin(OpSlt, r.clock, cand.deadline), "clock advance") {
		r.clock = cand.deadline
	}
	r.timerFires++
	if cand.period != nil {
		cand.deadline = tt.Bin(OpAdd, cand.deadline, cand.period)
		r.tickerFires++
		if r.tickerFires > r.e.cfg.MaxTicks {
			// horizon: periodic timers stop, the system drains to quiescence and the oracles run
			r.horizon = true
			for _, tm := range r.timers {
				if tm.period != nil {
					tm.active = false
				}
			}
			r.event("~horizon")
			return
		}
	} else {
		cand.active = false
	}
	if cand.fire != nil {
		cand.fire(by)
		return
	}
	if len(cand.ch.buf) < cand.ch.cap {
		cand.ch.buf = append(cand.ch.buf, chanMsg{r.timeValue(r.clock), cand.vc.clone()})
		r.commitWaiters(cand.ch, true)
	}
}

// ---------------------------------------------------------------------------
// mutexes etc. (side tables keyed by the address of the sync object)

type mutexSt struct {
	locked         bool
	readers        int
	writersWaiting int
	vc             VC // released by writers
	rvc            VC // released by readers
}

func (r *Run) mutex(p *Value) *mutexSt {
	m, ok := r.mutexes[p]
	if !ok {
		m = &mutexSt{}
		r.mutexes[p] = m
	}
	return m
}

func (t *Thread) lock(p *Value) {
	m := t.run.mutex(p)
	t.yield("lock")
	if m.locked || m.readers > 0 {
		m.writersWaiting++
		t.block(func() bool { return !m.locked && m.readers == 0 }, "mutex")
		m.writersWaiting--
	}
	m.locked = true
	t.vc.join(m.vc)
	t.vc.join(m.rvc)
}

func (t *Thread) unlock(p *Value) {
	m := t.run.mutex(p)
	if !m.locked {
		panic(&GoPanic{msg: "fatal error: sync: unlock of unlocked mutex"})
	}
	m.vc = t.vc.clone()
	t.tick()
	m.locked = false
	t.yield("unlock")
}

func (t *Thread) rlock(p *Value) {
	m := t.run.mutex(p)
	t.yield("rlock")
	if m.locked || m.writersWaiting > 0 {
		t.block(func() bool { return !m.locked && m.writersWaiting == 0 }, "rwmutex-r")
	}
	m.readers++
	t.vc.join(m.vc)
}

func (t *Thread) runlock(p *Value) {
	m := t.run.mutex(p)
	if m.readers <= 0 {
		panic(&GoPanic{msg: "fatal error: sync: RUnlock of unlocked RWMutex"})
	}
	m.rvc.join(t.vc)
	t.tick()
	m.readers--
	t.yield("runlock")
}

// ---------------------------------------------------------------------------
// happens-before race detection over the executor's memory accesses

type accessInfo struct {
	wTid, wClk int
	wSite      string
	wAtomic    bool
	reads      map[int]readInfo
}
type readInfo struct {
	clk  int
	site string
}

func (t *Thread) site() string {
	if t.top != nil && t.top.curInstr != nil {
		return t.run.e.P.pos(t.top.curInstr.Pos())
	}
	return "?"
}

func (t *Thread) logAccess(p *Value, write bool) { t.logAccessK(p, write, false) }

func (t *Thread) logAccessK(p *Value, write bool, atomic bool) {
	r := t.run
	if t.atomicDepth > 0 || r.inInit {
		return
	}
	switch (*p).(type) {
	case Struct:
		s := (*p).(Struct)
		for i := range s {
			t.logAccessK(&s[i], write, atomic)
		}
		return
	case Array:
		a := (*p).(Array)
		for i := range a {
			t.logAccessK(&a[i], write, atomic)
		}
		return
	}
	if t.top != nil && r.e.P.isHarnessFn(t.top.fn) {
		return // the harness' own data is protected by its atomic sections; not judged
	}
	a, ok := r.access[p]
	if !ok {
		a = &accessInfo{wTid: -1}
		r.access[p] = a
	}
	me := t.vc.get(t.id)
	if a.wTid >= 0 && a.wTid != t.id && a.wClk > t.vc.get(a.wTid) && !(atomic && a.wAtomic) {
		r.race(t, a.wSite, "write", write)
	}
	if write {
		for tid, ri := range a.reads {
			if tid != t.id && ri.clk > t.vc.get(tid) {
				r.race(t, ri.site, "read", write)
			}
		}
		a.wTid, a.wClk, a.wSite, a.wAtomic = t.id, me, t.site(), atomic
		a.reads = nil
	} else if !atomic {
		if a.reads == nil {
			a.reads = map[int]readInfo{}
		}
		a.reads[t.id] = readInfo{me, t.site()}
	}
}

func (r *Run) race(t *Thread, otherSite, otherKind string, write bool) {
	kind := "read"
	if write {
		kind = "write"
	}
	sites := []string{t.site() + "(" + kind + ")", otherSite + "(" + otherKind + ")"}
	sort.Strings(sites)
	key := sites[0] + " vs " + sites[1]
	if r.races[key] {
		return
	}
	r.races[key] = true
	r.violation("race", "data race: "+key, nil)
}
